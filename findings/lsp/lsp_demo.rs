//! C13 demonstration: with an LSP voice (stage >= 1) the vocoder's pulse response must be K / A(z)^stage where
//! A is the LPC polynomial whose line spectral frequencies are the ones given.
use jbonsai::vocoder::Vocoder;

fn reference_lpc(w: &[f64]) -> Vec<f64> {
    // A(z) = (P(z) + Q(z)) / 2 by polynomial multiplication of the LSP factors
    let m = w.len();
    let mul = |a: &[f64], b: &[f64]| {
        let mut r = vec![0.0; a.len() + b.len() - 1];
        for (i, x) in a.iter().enumerate() {
            for (j, y) in b.iter().enumerate() {
                r[i + j] += x * y;
            }
        }
        r
    };
    let mut p = vec![1.0];
    let mut q = vec![1.0];
    for (i, wi) in w.iter().enumerate() {
        let f = [1.0, -2.0 * wi.cos(), 1.0];
        if i % 2 == 0 {
            p = mul(&p, &f);
        } else {
            q = mul(&q, &f);
        }
    }
    if m % 2 == 0 {
        p = mul(&p, &[1.0, 1.0]);
        q = mul(&q, &[1.0, -1.0]);
    } else {
        q = mul(&q, &[1.0, 0.0, -1.0]);
    }
    (0..=m).map(|k| 0.5 * (p[k] + q[k])).collect()
}

fn impulse_response(a: &[f64], n: usize) -> Vec<f64> {
    let mut h = vec![0.0; n];
    for t in 0..n {
        let mut y = if t == 0 { 1.0 } else { 0.0 };
        for k in 1..a.len() {
            if t >= k {
                y -= a[k] * h[t - k];
            }
        }
        h[t] = y;
    }
    h
}

fn run(w: &[f64], gain: f64) -> Vec<f64> { run_stage(w, gain, 1, false) }

fn run_stage(w: &[f64], gain: f64, stage: usize, log_gain: bool) -> Vec<f64> {
    let mut spectrum = vec![gain];
    spectrum.extend_from_slice(w);
    let fperiod = 4000;
    let mut v = Vocoder::new(spectrum.len(), 0, stage, log_gain, 48000, 0.0, 0.0, 1.0, fperiod);
    let mut buf = vec![0.0; fperiod];
    v.synthesize((20.0f64).ln(), &spectrum, &[], &mut buf);
    buf
}

#[test]
fn lsp_pulse_response_is_all_pole_filter_of_the_given_frequencies() {
    for w in [vec![0.5, 1.0, 1.6, 2.3], vec![0.4, 0.9, 1.5, 2.0, 2.6]] {
        let buf = run(&w, 1.0);
        assert!(
            buf.iter().all(|x| x.is_finite()),
            "non-finite output for {w:?}"
        );
        let n0 = buf.iter().position(|x| *x != 0.0).expect("no pulse");
        let h = impulse_response(&reference_lpc(&w), 300);
        for k in 0..300 {
            let got = buf[n0 + k] / buf[n0];
            assert!(
                (got - h[k]).abs() < 1e-6 * (1.0 + h[k].abs()),
                "order {} sample {k}: got {got}, want {}",
                w.len(),
                h[k]
            );
        }
    }
}

/// stage 2 (gamma = -1/2): two cascaded sections, the response is h * h; the gain scales the output linearly,
/// a log gain through exp
#[test]
fn lsp_stage_two_and_gain() {
    let w = vec![0.5, 1.0, 1.6, 2.3];
    let h = impulse_response(&reference_lpc(&w), 200);
    let buf = run_stage(&w, 1.0, 2, false);
    let n0 = buf.iter().position(|x| *x != 0.0).expect("no pulse");
    for k in 0..200 {
        let want: f64 = (0..=k).map(|j| h[j] * h[k - j]).sum();
        let got = buf[n0 + k] / buf[n0];
        assert!((got - want).abs() < 1e-6 * (1.0 + want.abs()), "stage 2 sample {k}: got {got}, want {want}");
    }
    let b1 = run_stage(&w, 1.0, 1, false);
    let b3 = run_stage(&w, 3.0, 1, false);
    let bl = run_stage(&w, (3.0f64).ln(), 1, true);
    let n1 = b1.iter().position(|x| *x != 0.0).unwrap();
    for k in 0..200 {
        assert!((b3[n1 + k] - 3.0 * b1[n1 + k]).abs() < 1e-9 * (1.0 + b1[n1 + k].abs()));
        assert!((bl[n1 + k] - 3.0 * b1[n1 + k]).abs() < 1e-9 * (1.0 + b1[n1 + k].abs()));
    }
}
