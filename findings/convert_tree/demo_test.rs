// Demonstration (appended to src/model/parser/model/mod.rs of a scratch copy):
// a tree node that names an undefined question must be a load error, not a panic (C18).
#[cfg(test)]
mod verif_demo {
    use super::*;
    use self::tree::{Node, Tree as PTree};
    #[test]
    fn undefined_question_is_an_error_not_a_panic() {
        let t = PTree { state: 2, nodes: vec![Node { id: 0, question_name: String::from("undefined"),
            yes: TreeIndex::Pdf(1), no: TreeIndex::Pdf(2) }] };
        let lut: BTreeMap<String, Question> = BTreeMap::new();
        let r = std::panic::catch_unwind(|| { let _ = convert_tree(t, &lut); });
        assert!(r.is_ok(), "convert_tree panicked on an undefined question reference");
    }
}
