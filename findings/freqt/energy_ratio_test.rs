use jbonsai::vocoder::Vocoder;
fn response(c: &[f64], alpha: f64, beta: f64) -> Vec<f64> {
    let fp = 6000;
    let mut v = Vocoder::new(c.len(), 0, 0, false, 48000, alpha, beta, 1.0, fp);
    let mut buf = vec![0.0; fp];
    // two frames so that the coefficient interpolation has settled; measure the second
    v.synthesize((20.0f64).ln(), c, &[], &mut buf);
    let mut buf2 = vec![0.0; fp];
    v.synthesize((20.0f64).ln(), c, &[], &mut buf2);
    buf2
}
#[test]
fn energy_ratio() {
    let cs: Vec<Vec<f64>> = vec![
        vec![0.0, 0.5, -0.3, 0.2, 0.1, -0.05],
        vec![0.2, -0.4, 0.3, -0.2, 0.15, 0.1, -0.08, 0.05],
        vec![-0.1, 0.8, 0.4, 0.2],
    ];
    for c in &cs {
        for &alpha in &[0.0, 0.42, 0.55] {
            for &beta in &[0.2, 0.4] {
                let e0: f64 = response(c, alpha, 0.0).iter().map(|x| x * x).sum();
                let e1: f64 = response(c, alpha, beta).iter().map(|x| x * x).sum();
                println!("n={} alpha={} beta={} ratio={}", c.len(), alpha, beta, e1 / e0);
            }
        }
    }
}
