//! C18: every header number replaced by a huge value must give Ok or Err, never a panic.
use std::panic;

const VOICE: &str = "models/hts_voice_nitech_jp_atr503_m001-1.05/nitech_jp_atr503_m001.htsvoice";

fn load_with(replace_from: &str, replace_to: &str) -> Result<bool, String> {
    let bytes = std::fs::read(VOICE).unwrap();
    let pos = bytes
        .windows(replace_from.len())
        .position(|w| w == replace_from.as_bytes())
        .expect("header line present");
    let mut m = bytes[..pos].to_vec();
    m.extend_from_slice(replace_to.as_bytes());
    m.extend_from_slice(&bytes[pos + replace_from.len()..]);
    let dir = std::env::temp_dir().join(format!("c18_{}_{}", std::process::id(), replace_to.len()));
    std::fs::create_dir_all(&dir).unwrap();
    let path = dir.join("v.htsvoice");
    std::fs::write(&path, &m).unwrap();
    let r = panic::catch_unwind(|| jbonsai::model::load_htsvoice_file(&path).is_ok());
    std::fs::remove_dir_all(&dir).ok();
    r.map_err(|e| {
        e.downcast_ref::<String>()
            .cloned()
            .or_else(|| e.downcast_ref::<&str>().map(|s| s.to_string()))
            .unwrap_or_default()
    })
}

#[test]
fn huge_vector_length() {
    let r = load_with(
        "VECTOR_LENGTH[MCP]:35",
        "VECTOR_LENGTH[MCP]:9223372036854775807",
    );
    assert!(r.is_ok(), "panicked: {:?}", r);
}
#[test]
fn huge_num_windows() {
    let r = load_with("NUM_WINDOWS[MCP]:3", "NUM_WINDOWS[MCP]:6148914691236517205");
    assert!(r.is_ok(), "panicked: {:?}", r);
}
#[test]
fn huge_num_states() {
    let r = load_with("NUM_STATES:5", "NUM_STATES:18446744073709551615");
    assert!(r.is_ok(), "panicked: {:?}", r);
}
#[test]
fn huge_gv_vector_length() {
    let r = load_with(
        "VECTOR_LENGTH[LF0]:1",
        "VECTOR_LENGTH[LF0]:18446744073709551615",
    );
    assert!(r.is_ok(), "panicked: {:?}", r);
}

#[test]
fn large_but_representable_vector_length() {
    let r = load_with("VECTOR_LENGTH[MCP]:35", "VECTOR_LENGTH[MCP]:1152921504606846976");
    assert!(r.is_ok(), "panicked: {:?}", r);
    assert_eq!(r, Ok(false));
}
#[test]
fn unchanged_voice_still_loads() {
    let r = load_with("VECTOR_LENGTH[MCP]:35", "VECTOR_LENGTH[MCP]:35");
    assert_eq!(r, Ok(true));
}
