//@attach src/duration.rs
// K-dur-lemmas: the contracted callee estimate_duration and the float lemmas L1-L3 used by Verus unit `duration`
// (no pasted holes: kept apart from duration_holes so that a change which makes a hole unextractable does not take
// these harnesses down with it).
//@harness name=estimate_duration_structure tier=quick label=bounded(N=3) props=C08,C09,C01
//@harness name=estimate_duration_formula_rho0 tier=quick label=bounded(N=3) props=C08,C09,C01
//@harness name=estimate_duration_formula_rho_half tier=thorough label=bounded(N=3,rho=0.5) props=C08,C09,C01 timeout=900
//@harness name=lemma_l1_floor tier=quick label=proved props=C08,C09,C01
//@harness name=lemma_l2_speed1 tier=quick label=proved props=C08
//@harness name=lemma_l3_align_round tier=quick label=proved props=C09 timeout=400
use super::*;

const N: usize = 3;

fn any_params() -> [MeanVari; N] {
    [
        MeanVari(kani::any(), kani::any()),
        MeanVari(kani::any(), kani::any()),
        MeanVari(kani::any(), kani::any()),
    ]
}


/// contracted callee estimate_duration, structure: one output per state, each >= 1,
/// for fully symbolic parameters and rho
#[kani::proof]
#[kani::unwind(5)]
fn estimate_duration_structure() {
    let params = any_params();
    let rho: f64 = kani::any();
    let r = DurationEstimator::estimate_duration(&params, rho);
    assert!(r.len() == N);
    assert!(r[0] >= 1 && r[1] >= 1 && r[2] >= 1);
    kani::cover!(r[1] > 1);
}

/// contracted callee estimate_duration, formula at rho = 0 (the value used for speed 1 and for
/// trailing labels): r[i] = (mean_i + 0*vari_i).round().max(1.0) as usize for symbolic parameters
#[kani::proof]
#[kani::unwind(5)]
fn estimate_duration_formula_rho0() {
    let params = any_params();
    let rho: f64 = 0.0;
    let r = DurationEstimator::estimate_duration(&params, rho);
    assert!(r.len() == N);
    assert!(r[0] == (params[0].0 + rho * params[0].1).round().max(1.0) as usize);
    assert!(r[1] == (params[1].0 + rho * params[1].1).round().max(1.0) as usize);
    assert!(r[2] == (params[2].0 + rho * params[2].1).round().max(1.0) as usize);
    kani::cover!(r[2] > 1);
}

/// same formula at a non-zero constant rho (a product of two symbolic doubles is intractable
/// for CBMC, P9); thorough tier: ~4 min
#[kani::proof]
#[kani::unwind(5)]
fn estimate_duration_formula_rho_half() {
    let params = any_params();
    let rho: f64 = 0.5;
    let r = DurationEstimator::estimate_duration(&params, rho);
    assert!(r.len() == N);
    assert!(r[1] == (params[1].0 + rho * params[1].1).round().max(1.0) as usize);
    kani::cover!(r[1] > 1);
}

/// L1: for every f64 x (NaN and infinities included) x.round().max(1.0) as usize >= 1
#[kani::proof]
fn lemma_l1_floor() {
    let x: f64 = kani::any();
    assert!(x.round().max(1.0) as usize >= 1);
}

/// L2: at rho = 0 the variance does not matter: each state lasts round(mean) frames, at least 1
#[kani::proof]
fn lemma_l2_speed1() {
    let m: f64 = kani::any();
    let v: f64 = kani::any();
    kani::assume(m.is_finite() && v.is_finite());
    let a = (m + 0.0 * v).round().max(1.0) as usize;
    let b = m.round().max(1.0) as usize;
    assert!(a == b && a >= 1);
}

/// L3: frames so far + round(end - frames so far) == round(end), whenever at least one
/// frame is left (times below 1e12 frames, counts below 2^40)
#[kani::proof]
fn lemma_l3_align_round() {
    let end: f64 = kani::any();
    let fc: usize = kani::any();
    kani::assume(fc <= (1usize << 40));
    kani::assume(end >= 0.0 && end <= 1.0e12);
    let d = end - fc as f64;
    let t = d.round().max(1.0) as usize;
    kani::assume(d.round() >= 1.0);
    assert!(fc + t == end.round() as usize);
}
