//@attach src/engine.rs
// K-genargs: what Engine::generator hands to the three MlpgAdjust::new calls (C11: stream i gets msd_threshold[i] and
// gv_weight[i]; C12: likewise the GV weight; C15: the additional half tone is applied to the stream-1 MODEL, before
// MLPG, and to no other stream).  generator itself needs a VoiceSet and Labels (out of CBMC's reach); the argument
// lists of the three calls, and the nested helper `mutated`, are cut from its text on every run (SLICE) and evaluated
// on the real Condition with a shim `models` whose model_stream(i) returns a stream that records the half-tone shift
// applied to it.  The API-level counterpart of the `#wiring` obligation of Verus unit engine (which loses its anchors
// when the calls are restructured).  Loop-free over symbolic condition values: complete for this slice.
// One harness per group of facts, so that a failure is reported under the properties that fact carries only.
//@harness name=generator_streams_get_their_own_threshold tier=quick label=proved props=C11 timeout=900
//@harness name=generator_streams_get_their_own_gv_weight tier=quick label=proved props=C11,C12 timeout=900
//@harness name=generator_streams_get_their_own_model tier=quick label=proved props=C11,C12,C15 timeout=900
//@harness name=generator_half_tone_reaches_the_lf0_model_only tier=quick label=proved props=C15 timeout=900
use super::*;

pub struct SStreamParam { shift: f64, shifted: bool }
impl SStreamParam { fn apply_additional_half_tone(&mut self, h: f64) { self.shift = h; self.shifted = true; } }
// the shim stream has every field of the real ModelStream (vector_length, stream, gv, windows) plus an id, so that
// code reaching for any of them in the `mutated` closure compiles here and the assertions below see what it did
pub struct SWindows { tag: usize }
pub struct SModelStream { id: usize, vector_length: usize, stream: SStreamParam, gv: Option<crate::model::GvParameter>, windows: SWindows }
pub struct SModels;
impl SModels {
    fn model_stream(&self, i: usize) -> SModelStream {
        SModelStream {
            id: i,
            vector_length: 7 + i,
            stream: SStreamParam { shift: 0.0, shifted: false },
            gv: Some((vec![crate::model::MeanVari(1.5, 2.5)], vec![true])),
            windows: SWindows { tag: 40 + i },
        }
    }
}
pub struct SEngine { condition: Condition }

impl SEngine {
    fn args(&self, models: &SModels) -> [(f64, f64, SModelStream); 3] {
        /*@SLICE src/engine.rs :: impl Engine :: fn generator :: from "estimator.create(self.condition.speed) };" to "let spectrum"@*/
        [
            (/*@SLICE src/engine.rs :: impl Engine :: fn generator :: from "MlpgAdjust::new(" occ 1 to ") .create(&durations)"@*/),
            (/*@SLICE src/engine.rs :: impl Engine :: fn generator :: from "MlpgAdjust::new(" occ 2 to ") .create(&durations)"@*/),
            (/*@SLICE src/engine.rs :: impl Engine :: fn generator :: from "MlpgAdjust::new(" occ 3 to ") .create(&durations)"@*/),
        ]
    }
}

fn any_args() -> ([(f64, f64, SModelStream); 3], [f64; 3], [f64; 3], f64) {
    let mut c = Condition::default();
    let t: [f64; 3] = kani::any();
    let g: [f64; 3] = kani::any();
    let h: f64 = kani::any();
    kani::assume(!h.is_nan() && !t[0].is_nan() && !t[1].is_nan() && !t[2].is_nan() && !g[0].is_nan() && !g[1].is_nan() && !g[2].is_nan());
    c.msd_threshold = vec![t[0], t[1], t[2]];
    c.gv_weight = vec![g[0], g[1], g[2]];
    c.additional_half_tone = h;
    let e = SEngine { condition: c };
    let a = e.args(&SModels);
    std::mem::forget(e);
    (a, t, g, h)
}

/// C11: stream i is built with msd_threshold[i]
#[kani::proof]
fn generator_streams_get_their_own_threshold() {
    let (a, t, _g, _h) = any_args();
    let mut i = 0;
    while i < 3 { assert!(a[i].1.to_bits() == t[i].to_bits()); i += 1; }
    kani::cover!(true);
    std::mem::forget(a);
}
/// C11 / C12: stream i is built with gv_weight[i]
#[kani::proof]
fn generator_streams_get_their_own_gv_weight() {
    let (a, _t, g, _h) = any_args();
    let mut i = 0;
    while i < 3 { assert!(a[i].0.to_bits() == g[i].to_bits()); i += 1; }
    kani::cover!(true);
    std::mem::forget(a);
}
/// stream i is built from model_stream(i), with its vector length, GV statistics and windows as the models handed them out
#[kani::proof]
fn generator_streams_get_their_own_model() {
    let (a, _t, _g, _h) = any_args();
    let mut i = 0;
    while i < 3 {
        assert!(a[i].2.id == i);                            // model_stream(i)
        assert!(a[i].2.vector_length == 7 + i && a[i].2.windows.tag == 40 + i);
        match &a[i].2.gv {
            Some((mv, sw)) => {
                assert!(mv.len() == 1 && sw.len() == 1 && sw[0]);
                assert!(mv[0].0.to_bits() == 1.5f64.to_bits() && mv[0].1.to_bits() == 2.5f64.to_bits());
            }
            None => assert!(false),
        }
        i += 1;
    }
    kani::cover!(true);
    std::mem::forget(a);
}
/// C15: the half tone reaches the log-F0 model, with the condition's value, before MLPG; the other streams are untouched
#[kani::proof]
fn generator_half_tone_reaches_the_lf0_model_only() {
    let (a, _t, _g, h) = any_args();
    assert!(a[1].2.stream.shifted && a[1].2.stream.shift.to_bits() == h.to_bits());
    assert!(!a[0].2.stream.shifted && !a[2].2.stream.shifted);
    kani::cover!(true);
    std::mem::forget(a);
}
