//@attach src/engine.rs
// K-genargs: what Engine::generator hands to the three MlpgAdjust::new calls (C11: stream i gets msd_threshold[i] and
// gv_weight[i]; C12: likewise the GV weight; C15: the additional half tone is applied to the stream-1 MODEL, before
// MLPG, and to no other stream).  generator itself needs a VoiceSet and Labels (out of CBMC's reach); the argument
// lists of the three calls, and the nested helper `mutated`, are cut from its text on every run (SLICE) and evaluated
// on the real Condition with a shim `models` whose model_stream(i) returns a stream that records the half-tone shift
// applied to it.  The API-level counterpart of the `#wiring` obligation of Verus unit engine (which loses its anchors
// when the calls are restructured).  Loop-free over symbolic condition values: complete for this slice.
//@harness name=generator_mlpg_arguments_per_stream tier=quick label=proved props=C11,C12,C15 timeout=900
//@harness name=generator_vocoder_duration_and_speech_arguments tier=quick label=proved props=C01,C08,C09,C14,C16 timeout=900
use super::*;

pub struct SStreamParam { shift: f64, shifted: bool }
impl SStreamParam { fn apply_additional_half_tone(&mut self, h: f64) { self.shift = h; self.shifted = true; } }
pub struct SModelStream { id: usize, stream: SStreamParam }
pub struct SModels;
impl SModels { fn model_stream(&self, i: usize) -> SModelStream { SModelStream { id: i, stream: SStreamParam { shift: 0.0, shifted: false } } } }
pub struct SEngine { condition: Condition }

impl SEngine {
    fn args(&self, models: &SModels) -> [(f64, f64, SModelStream); 3] {
        /*@SLICE src/engine.rs :: impl Engine :: fn generator :: from "estimator.create(self.condition.speed) };" to "let spectrum"@*/
        [
            (/*@SLICE src/engine.rs :: impl Engine :: fn generator :: from "MlpgAdjust::new(" occ 1 to ") .create(&durations)"@*/),
            (/*@SLICE src/engine.rs :: impl Engine :: fn generator :: from "MlpgAdjust::new(" occ 2 to ") .create(&durations)"@*/),
            (/*@SLICE src/engine.rs :: impl Engine :: fn generator :: from "MlpgAdjust::new(" occ 3 to ") .create(&durations)"@*/),
        ]
    }
}

#[kani::proof]
fn generator_mlpg_arguments_per_stream() {
    let mut c = Condition::default();
    let t: [f64; 3] = kani::any();
    let g: [f64; 3] = kani::any();
    let h: f64 = kani::any();
    kani::assume(!h.is_nan() && !t[0].is_nan() && !t[1].is_nan() && !t[2].is_nan() && !g[0].is_nan() && !g[1].is_nan() && !g[2].is_nan());
    c.msd_threshold = vec![t[0], t[1], t[2]];
    c.gv_weight = vec![g[0], g[1], g[2]];
    c.additional_half_tone = h;
    let e = SEngine { condition: c };
    let a = e.args(&SModels);
    let mut i = 0;
    while i < 3 {
        assert!(a[i].0.to_bits() == g[i].to_bits());        // gv_weight[i]
        assert!(a[i].1.to_bits() == t[i].to_bits());        // msd_threshold[i]
        assert!(a[i].2.id == i);                            // model_stream(i)
        i += 1;
    }
    // the half tone reaches the log-F0 model, with the condition's value, before MLPG; the other streams are untouched
    assert!(a[1].2.stream.shifted && a[1].2.stream.shift.to_bits() == h.to_bits());
    assert!(!a[0].2.stream.shifted && !a[2].2.stream.shifted);
    kani::cover!(true);
    std::mem::forget(e);
}

// ---- the other argument lists of generator: Vocoder::new, the duration dispatch, SpeechGenerator::new ----
pub struct SStreamMeta { vector_length: usize }
pub struct SGlobalMeta { num_streams: usize }
pub struct SVoices { g: SGlobalMeta, s: Vec<SStreamMeta> }
impl SVoices {
    fn global_metadata(&self) -> &SGlobalMeta { &self.g }
    fn stream_metadata(&self, i: usize) -> &SStreamMeta { &self.s[i] }
}
pub struct SLabels;
impl SLabels { fn times(&self) -> u8 { 77 } }
/// records which estimator entry point was used and with what
#[derive(PartialEq)]
pub enum SDur { Aligned(u8), Speed(f64) }
pub struct SEstimator;
impl SEstimator {
    fn create_with_alignment(&self, times: u8) -> SDur { SDur::Aligned(times) }
    fn create(&self, speed: f64) -> SDur { SDur::Speed(speed) }
}
pub struct SEngine2 { condition: Condition, voices: SVoices }
type VocArgs = (usize, usize, usize, bool, usize, f64, f64, f64, usize);
impl SEngine2 {
    fn vocoder_args(&self) -> VocArgs {
        /*@SLICE src/engine.rs :: impl Engine :: fn generator :: from "// The low-pass filter stream is optional." to "let vocoder"@*/
        (/*@SLICE src/engine.rs :: impl Engine :: fn generator :: from "let vocoder = Vocoder::new(" to ");"@*/)
    }
    fn durations(&self, estimator: &SEstimator, labels: &SLabels) -> SDur {
        /*@SLICE src/engine.rs :: impl Engine :: fn generator :: from "let durations = " to "; fn mutated"@*/
    }
    fn speech_args(&self, vocoder: u8, spectrum: u8, lf0: u8, lpf: u8) -> (usize, u8, u8, u8, u8) {
        (/*@SLICE src/engine.rs :: impl Engine :: fn generator :: from "Ok(SpeechGenerator::new(" to "))"@*/)
    }
}

#[kani::proof]
fn generator_vocoder_duration_and_speech_arguments() {
    let mut c = Condition::default();
    c.sampling_frequency = kani::any();
    c.fperiod = kani::any();
    c.stage = kani::any();
    c.use_log_gain = kani::any();
    c.alpha = kani::any();
    c.beta = kani::any();
    c.volume = kani::any();
    c.speed = kani::any();
    c.phoneme_alignment_flag = kani::any();
    kani::assume(!c.alpha.is_nan() && !c.beta.is_nan() && !c.volume.is_nan() && !c.speed.is_nan());
    let three: bool = kani::any();
    let e = SEngine2 {
        condition: c.clone(),
        voices: SVoices { g: SGlobalMeta { num_streams: if three { 3 } else { 2 } },
                          s: vec![SStreamMeta { vector_length: 35 }, SStreamMeta { vector_length: 1 }, SStreamMeta { vector_length: 31 }] },
    };
    // C01 / C14 / C16: Vocoder::new(order of stream 0, order of the optional low-pass stream or 0, stage, log gain, rate, alpha, beta, volume, frame period)
    let v = e.vocoder_args();
    assert!(v.0 == 35 && v.1 == (if three { 31 } else { 0 }));
    assert!(v.2 == c.stage && v.3 == c.use_log_gain && v.4 == c.sampling_frequency);
    assert!(v.5.to_bits() == c.alpha.to_bits() && v.6.to_bits() == c.beta.to_bits() && v.7.to_bits() == c.volume.to_bits());
    assert!(v.8 == c.fperiod);
    // C08 / C09: alignment on -> create_with_alignment(labels.times()); off -> create(speed)
    let d = e.durations(&SEstimator, &SLabels);
    if c.phoneme_alignment_flag { assert!(d == SDur::Aligned(77)); } else { assert!(matches!(d, SDur::Speed(s) if s.to_bits() == c.speed.to_bits())); }
    // C01: the generator renders with the SAME frame period the vocoder was built with, streams in the order spectrum, log-F0, low-pass
    let sp = e.speech_args(9, 1, 2, 3);
    assert!(sp.0 == c.fperiod && sp.1 == 9 && sp.2 == 1 && sp.3 == 2 && sp.4 == 3);
    kani::cover!(three && c.phoneme_alignment_flag);
    std::mem::forget(e);
}
