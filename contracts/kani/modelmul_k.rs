//@attach src/model/voice/model.rs
// K-modelmul: ModelParameter::mul on its own, with weights other than 1 (C10 / C11: the interpolated voicing weight).
// A module of its own, without holes, so that it still compiles when the text of `mul` is restructured and the
// Verus unit interp (and with it the hole of K-model) loses its anchors.
//@harness name=mul_scales_mean_and_variance tier=quick label=bounded(vector=1,weights=(.5,2,.25)) props=C10 timeout=600
//@harness name=mul_scales_voicing_weight tier=quick label=bounded(vector=1,weights=(.5,2,.25)) props=C10,C11 timeout=600
use super::*;

fn mul_scales(w: f64, voicing: bool) {
    let (m0, v0, s0): (f64, f64, f64) = kani::any();
    kani::assume(!m0.is_nan() && !v0.is_nan() && !s0.is_nan());
    let p0 = ModelParameter { parameters: vec![MeanVari(m0, v0)], msd: Some(s0) };
    let r = p0.mul(w);
    if voicing {
        assert!(r.msd.unwrap().to_bits() == (w * s0).to_bits());      // the voicing weight is scaled like the rest (C11)
    } else {
        assert!(r.parameters.len() == 1);
        assert!(r.parameters[0].0.to_bits() == (m0 * w).to_bits());
        assert!(r.parameters[0].1.to_bits() == (v0 * w).to_bits());
    }
}
/// mul alone (the first step of VoiceSet::weighted) with weights other than 1: mean and variance of the first voice
/// are scaled by its interpolation weight (constants: a symbolic weight is a symbolic multiplicand)
#[kani::proof]
#[kani::unwind(3)]
fn mul_scales_mean_and_variance() { mul_scales(0.5, false); mul_scales(2.0, false); mul_scales(0.25, false); kani::cover!(true); }
/// ... and so is its voicing weight (asserted apart, so that a change to the mean / variance arithmetic is reported
/// under C10 only and not under C11)
#[kani::proof]
#[kani::unwind(3)]
fn mul_scales_voicing_weight() { mul_scales(0.5, true); mul_scales(2.0, true); mul_scales(0.25, true); kani::cover!(true); }
