//@attach src/model/parser/model/mod.rs
// K-convert-body: the REAL BODY of convert_tree (C04: a loaded tree is the tree in the file; C18: a tree that
// names an undefined question or node is an error, not a panic), cut from the tree under check on every run.
// Calling the real function exhausts CBMC because of std's BTreeMap (convert_tree_k.rs, kept unregistered).  Here
// the body is compiled in a module where the name `BTreeMap` is bound to a list-backed map with the same two
// operations the body uses and the same semantics (`from_iter`: a later pair with an equal key replaces the earlier
// one; `get`).  Everything else is real: the parser's Tree / Node / TreeIndex, slice sort_unstable / binary_search,
// the voice's Tree / TreeNode and jlabel-question's Question values (cloned, never evaluated).
// What the shim drops: std's B-tree.  Bounded: trees of 1-2 internal nodes, concrete ids.
//@harness name=convert_single_leaf_and_single_question tier=quick label=bounded(1-node-trees,concrete-ids) props=C04,C18 timeout=900
// harness (NOT REGISTERED: no answer within 20 minutes under CBMC even with the list-backed map, with either SAT back end: the time goes into symbolic execution of sort_unstable + binary_search over five TreeNode values) name=convert_two_nodes_order_and_indices tier=thorough label=bounded(2-node-tree,concrete-ids) props=C04 timeout=1200
//@harness name=convert_unknown_references_are_errors tier=quick label=bounded(1-node-trees) props=C18,C04 timeout=900
use self::tree::{Node, Tree as PTree, TreeIndex};
use crate::model::voice::question::Question;
use super::ModelParseError;

/// list-backed stand-in for std::collections::BTreeMap (only what convert_tree uses)
pub struct BTreeMap<K, V>(Vec<(K, V)>);
impl<K: PartialEq, V> BTreeMap<K, V> {
    pub fn from_iter<I: IntoIterator<Item = (K, V)>>(it: I) -> Self {
        let mut v: Vec<(K, V)> = Vec::new();
        for (k, val) in it {
            let mut j = 0;
            let mut found = false;
            while j < v.len() {
                if v[j].0 == k { found = true; break; }
                j += 1;
            }
            if found { v[j].1 = val; } else { v.push((k, val)); }
        }
        BTreeMap(v)
    }
    pub fn get<Q: ?Sized>(&self, k: &Q) -> Option<&V> where K: std::borrow::Borrow<Q>, Q: PartialEq {
        let mut j = 0;
        while j < self.0.len() {
            if self.0[j].0.borrow() == k { return Some(&self.0[j].1); }
            j += 1;
        }
        None
    }
}
mod tree { pub use super::super::tree::*; }

fn convert_tree(orig_tree: PTree, question_lut: &BTreeMap<String, Question>) -> Result<crate::model::voice::tree::Tree, ModelParseError>
/*@BODY src/model/parser/model/mod.rs :: fn convert_tree@*/

fn question() -> Question {
    Question::AllQustion(jlabel_question::AllQuestion::Undefined(jlabel_question::Question {
        position: jlabel_question::position::UndefinedPotision::E4, range: None }))
}
fn qlut() -> BTreeMap<String, Question> { BTreeMap(vec![(String::from("q1"), question()), (String::from("q2"), question())]) }
fn node(id: isize, q: &str, yes: TreeIndex, no: TreeIndex) -> Node { Node { id, question_name: String::from(q), yes, no } }
use crate::model::voice::tree::TreeNode as TN;
fn is_leaf(n: &TN, p: usize) -> bool { matches!(n, TN::Leaf { pdf_index } if *pdf_index == p) }
fn is_node(n: &TN, y: usize, nn: usize) -> bool { matches!(n, TN::Node { yes, no, .. } if *yes == y && *no == nn) }

/// one node whose two branches name the same PDF is a single leaf; one question with two DIFFERENT leaves (the shape
/// of the bundled voice's GV tree) keeps its question: yes / no point at the leaves in sorted-PDF order after the node
#[kani::proof]
#[kani::unwind(6)]
fn convert_single_leaf_and_single_question() {
    let lut = qlut();
    let r = convert_tree(PTree { state: 2, nodes: vec![node(0, "q1", TreeIndex::Pdf(3), TreeIndex::Pdf(3))] }, &lut);
    match &r {
        Ok(t) => assert!(t.state == 2 && t.nodes.len() == 1 && is_leaf(&t.nodes[0], 3)),
        Err(_) => assert!(false),
    }
    // PDF ids need not start at 1 nor be contiguous: a leaf's position is its RANK among the tree's PDF ids
    let r2 = convert_tree(PTree { state: 4, nodes: vec![node(0, "q2", TreeIndex::Pdf(7), TreeIndex::Pdf(3))] }, &lut);
    match &r2 {
        Ok(t) => {
            assert!(t.state == 4 && t.nodes.len() == 3);
            assert!(is_node(&t.nodes[0], 2, 1) && is_leaf(&t.nodes[1], 3) && is_leaf(&t.nodes[2], 7));
        }
        Err(_) => assert!(false),
    }
    kani::cover!(true);
    std::mem::forget((r, r2, lut));
}

/// two internal nodes: children that are nodes become the position of the node with that id, children that are PDFs
/// become (number of internal nodes + rank of the PDF among the sorted PDFs); leaves follow in sorted order
#[kani::proof]
#[kani::unwind(6)]
fn convert_two_nodes_order_and_indices() {
    let lut = qlut();
    let r = convert_tree(PTree { state: 3, nodes: vec![
        node(0, "q1", TreeIndex::Node(-1), TreeIndex::Pdf(5)),
        node(-1, "q1", TreeIndex::Pdf(6), TreeIndex::Pdf(4)),
    ] }, &lut);
    match &r {
        Ok(t) => {
            assert!(t.state == 3 && t.nodes.len() == 5);
            assert!(is_node(&t.nodes[0], 1, 3) && is_node(&t.nodes[1], 4, 2));
            assert!(is_leaf(&t.nodes[2], 4) && is_leaf(&t.nodes[3], 5) && is_leaf(&t.nodes[4], 6));
        }
        Err(_) => assert!(false),
    }
    kani::cover!(true);
    std::mem::forget((r, lut));
}

/// an undefined question name, or a child node id that no node has, is the error value MalformedTree, never a panic
#[kani::proof]
#[kani::unwind(6)]
fn convert_unknown_references_are_errors() {
    let lut = qlut();
    let child: i8 = kani::any();
    kani::assume(child != 0);
    let r = convert_tree(PTree { state: 2, nodes: vec![node(0, "q1", TreeIndex::Node(child as isize), TreeIndex::Pdf(1))] }, &lut);
    assert!(matches!(r, Err(ModelParseError::MalformedTree)));
    let r2 = convert_tree(PTree { state: 2, nodes: vec![node(0, "nope", TreeIndex::Pdf(2), TreeIndex::Pdf(1))] }, &lut);
    assert!(matches!(r2, Err(ModelParseError::MalformedTree)));
    let r3 = convert_tree(PTree { state: 2, nodes: vec![node(0, "q1", TreeIndex::Node(7), TreeIndex::Node(7))] }, &lut);
    assert!(matches!(r3, Err(ModelParseError::MalformedTree)));
    // a tree body without any node (a malformed file) is a value, not an index panic
    let r4 = convert_tree(PTree { state: 2, nodes: vec![] }, &lut);
    match &r4 { Ok(t) => assert!(t.nodes.len() == 0 && t.state == 2), Err(_) => {} }
    kani::cover!(true);
    std::mem::forget((r, r2, r3, r4, lut));
}
