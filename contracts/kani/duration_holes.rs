//@attach src/duration.rs
// K-dur: the contracts that the Verus unit `duration` ASSUMES for its holes and for the
// contracted callee estimate_duration, checked here on the text currently in /repo
// (hole contents are pasted in by the overlay), plus the float lemmas L1-L3.
//
//@harness name=hole_target_contract tier=quick label=proved props=C08,C09,C01
//@harness name=hole_sum_contract tier=quick label=bounded(N=3) props=C08,C09,C01
//@harness name=hole_inc_contract tier=quick label=bounded(N=3) props=C08,C09,C01 timeout=400
//@harness name=hole_dec_contract tier=quick label=bounded(N=3) props=C08,C09,C01 timeout=400
use super::*;

const N: usize = 3;

fn any_params() -> [MeanVari; N] {
    [
        MeanVari(kani::any(), kani::any()),
        MeanVari(kani::any(), kani::any()),
        MeanVari(kani::any(), kani::any()),
    ]
}

/// hole `target`: target_spec(x) = x.round().max(1.0) as usize, and it is >= 1 for EVERY f64
#[kani::proof]
fn hole_target_contract() {
    let frame_length: f64 = kani::any();
    let r: usize = /*@HOLE target@*/;
    assert!(r >= 1);
    assert!(r == frame_length.round().max(1.0) as usize);
    kani::cover!(r > 1);
}

/// holes `sum`, `sum_create`, `sum_align`: the usize sum of the vector
#[kani::proof]
#[kani::unwind(5)]
fn hole_sum_contract() {
    let a: [usize; N] = kani::any();
    kani::assume(a[0] <= 1 << 40 && a[1] <= 1 << 40 && a[2] <= 1 << 40);
    let want = a[0] + a[1] + a[2];
    {
        let duration = a.to_vec();
        let s: usize = /*@HOLE sum@*/;
        assert!(s == want);
    }
    {
        let duration = a.to_vec();
        let s: usize = /*@HOLE sum_create@*/;
        assert!(s == want);
    }
    {
        let curr_duration = a.to_vec();
        let mut frame_count: usize = 0;
        frame_count += /*@HOLE sum_align@*/;
        assert!(frame_count == want);
    }
    kani::cover!(want > 3);
}

/// hole `inc`: on a non-empty vector the chain yields a reference to one of its entries
/// and modifies nothing (the caller then adds 1 to that entry).
#[kani::proof]
#[kani::unwind(5)]
fn hole_inc_contract() {
    let d0: [usize; N] = kani::any();
    kani::assume(d0[0] < usize::MAX && d0[1] < usize::MAX && d0[2] < usize::MAX);
    let params = any_params();
    let duration_params: &[MeanVari] = &params;
    let rho: f64 = kani::any();
    let calculate_cost = /*@HOLE cost@*/;
    let mut duration = d0.to_vec();
    let base = duration.as_ptr() as usize;
    let (found_duration, _) = /*@HOLE inc@*/;
    let k = (found_duration as *mut usize as usize - base) / core::mem::size_of::<usize>();
    assert!(k < N);
    assert!(*found_duration == d0[k]);
    assert!(duration[0] == d0[0] && duration[1] == d0[1] && duration[2] == d0[2]);
    kani::cover!(k == 2);
}

/// hole `dec`: if some entry is > 1 the chain yields a reference to an entry that is > 1
/// and modifies nothing (the caller then subtracts 1, keeping every entry >= 1).
#[kani::proof]
#[kani::unwind(5)]
fn hole_dec_contract() {
    let d0: [usize; N] = kani::any();
    kani::assume(d0[0] >= 1 && d0[1] >= 1 && d0[2] >= 1);
    kani::assume(d0[0] > 1 || d0[1] > 1 || d0[2] > 1);
    let params = any_params();
    let duration_params: &[MeanVari] = &params;
    let rho: f64 = kani::any();
    let calculate_cost = /*@HOLE cost@*/;
    let mut duration = d0.to_vec();
    let base = duration.as_ptr() as usize;
    let (found_duration, _) = /*@HOLE dec@*/;
    let k = (found_duration as *mut usize as usize - base) / core::mem::size_of::<usize>();
    assert!(k < N);
    assert!(*found_duration == d0[k]);
    assert!(d0[k] > 1);
    assert!(duration[0] == d0[0] && duration[1] == d0[1] && duration[2] == d0[2]);
    kani::cover!(k == 2);
}
