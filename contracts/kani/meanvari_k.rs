//@attach src/model/mean_vari.rs
// K-mv: MeanVari::{with_ivar, with_0, weighted} for all f64 (C05: precision = 1/variance with the
// HTS guards; zero precision marks an ignored observation).
//@harness name=with_ivar_contract tier=quick label=proved props=C05
//@harness name=with_ivar_reciprocal tier=quick label=bounded(variance-in-5-constants) props=C05
//@harness name=with_0_contract tier=quick label=proved props=C05
//@harness name=weighted_contract tier=quick label=proved props=C10
use super::*;

/// guards: huge variances give precision 0, tiny ones the cap 1e38; the mean is kept (all f64)
#[kani::proof]
fn with_ivar_contract() {
    let m: f64 = kani::any();
    let v: f64 = kani::any();
    kani::assume(!v.is_nan());
    let r = MeanVari(m, v).with_ivar();
    assert!(r.0.to_bits() == m.to_bits());
    if v.abs() > 1e19 { assert!(r.1 == 0.0); }
    else if v.abs() < 1e-19 { assert!(r.1 == 1e38); }
    kani::cover!(v.abs() > 1e19);
}
/// otherwise the precision is 1/variance (variance from constants: CBMC cannot show two symbolic
/// divisions equal)
#[kani::proof]
#[kani::unwind(7)]
fn with_ivar_reciprocal() {
    let vs = [1.0, 2.0, 0.5, -4.0, 0.03125];
    let mut k = 0;
    while k < 5 {
        let r = MeanVari(0.0, vs[k]).with_ivar();
        assert!(r.1 == 1.0 / vs[k]);
        k += 1;
    }
}
#[kani::proof]
fn with_0_contract() {
    let m: f64 = kani::any();
    let v: f64 = kani::any();
    let r = MeanVari(m, v).with_0();
    assert!(r.0.to_bits() == m.to_bits() && r.1 == 0.0 && r.1.is_sign_positive());
}
#[kani::proof]
fn weighted_contract() {
    let m: f64 = kani::any();
    let v: f64 = kani::any();
    let r = MeanVari(m, v).weighted(0.5);
    assert!(r.0.to_bits() == (m * 0.5).to_bits() && r.1.to_bits() == (v * 0.5).to_bits());
    let r = MeanVari(m, v).weighted(-2.0);
    assert!(r.0.to_bits() == (m * -2.0).to_bits() && r.1.to_bits() == (v * -2.0).to_bits());
    let r = MeanVari(m, v).weighted(0.0);
    assert!(r.0.to_bits() == (m * 0.0).to_bits() && r.1.to_bits() == (v * 0.0).to_bits());
}
