//@attach src/model/mean_vari.rs
// K-mv: MeanVari::{with_ivar, with_0, weighted} for all f64 (C05: precision = 1/variance with the
// HTS guards; zero precision marks an ignored observation).
//@harness name=with_ivar_contract tier=quick label=proved props=C05
//@harness name=with_0_contract tier=quick label=proved props=C05
//@harness name=weighted_contract tier=quick label=proved props=C10
use super::*;

#[kani::proof]
fn with_ivar_contract() {
    let m: f64 = kani::any();
    let v: f64 = kani::any();
    kani::assume(!v.is_nan());
    let r = MeanVari(m, v).with_ivar();
    assert!(r.0.to_bits() == m.to_bits());
    if v.abs() > 1e19 { assert!(r.1 == 0.0); }
    else if v.abs() < 1e-19 { assert!(r.1 == 1e38); }
    else { assert!(r.1.to_bits() == (1.0 / v).to_bits()); }
}
#[kani::proof]
fn with_0_contract() {
    let m: f64 = kani::any();
    let v: f64 = kani::any();
    let r = MeanVari(m, v).with_0();
    assert!(r.0.to_bits() == m.to_bits() && r.1 == 0.0 && r.1.is_sign_positive());
}
#[kani::proof]
fn weighted_contract() {
    let m: f64 = kani::any();
    let v: f64 = kani::any();
    let sel: u8 = kani::any();
    let w: f64 = match sel { 0 => 0.5, 1 => 2.0, 2 => -1.0, 3 => 0.0, _ => 1.0 };
    let r = MeanVari(m, v).weighted(w);
    assert!(r.0.to_bits() == (m * w).to_bits() && r.1.to_bits() == (v * w).to_bits());
}
