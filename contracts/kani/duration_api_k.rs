//@attach src/duration.rs
// K-dur-api: API-level (refactoring-robust) bounded counterparts of the Verus contracts of unit
// `duration`: the real functions run as they are (no holes), on small concrete duration models with
// symbolic frame length / speed / end times.  Bounded, never counted as proved.  Thorough tier only:
// the greedy +-1 loop unrolled 7 times over symbolic floats costs CBMC about 12 minutes per harness.
//@harness name=fit_small_model tier=thorough label=bounded(2-states,frame_length<=10) props=C08,C09,C01 timeout=3000
//@harness name=create_small_model tier=thorough label=bounded(2-states,speed-in-[0.8,8]) props=C08,C01 timeout=3600
// harness (NOT REGISTERED: peak resident set above 30 GB in the last runs; its clause is covered by the modular alignment harnesses and the Verus unit) name=align_small_model tier=thorough label=bounded(3-labels,1-state,ends<=10) props=C09,C01 timeout=1800
//@harness name=align_trailing_labels tier=thorough label=bounded(3-labels,1-state) props=C09,C01 timeout=1800
//@harness name=fit_repeated_shrink_keeps_floor tier=quick label=bounded(3-and-4-states,concrete-values) props=C08,C01 timeout=900
use super::*;

fn params2() -> Vec<MeanVari> { vec![MeanVari(3.0, 1.0), MeanVari(5.0, 4.0)] }

/// every state >= 1 frame; total = max(round(frame_length).max(1), number of states)
#[kani::proof]
#[kani::unwind(7)]
fn fit_small_model() {
    let fl: f64 = kani::any();
    kani::assume(fl >= 0.0 && fl <= 10.0);
    let p = params2();
    let r = DurationEstimator::estimate_duration_with_frame_length(&p, fl);
    assert!(r.len() == 2);
    assert!(r[0] >= 1 && r[1] >= 1);
    let target = fl.round().max(1.0) as usize;
    assert!(r[0] + r[1] == if target > 2 { target } else { 2 });
    if target <= 2 { assert!(r[0] == 1 && r[1] == 1); }
    kani::cover!(target == 9);
    kani::cover!(target == 3);
}

/// C08: speed 1 -> round(mean).max(1) per state; otherwise total = max(round(F1/s), states), every state >= 1
#[kani::proof]
#[kani::unwind(7)]
fn create_small_model() {
    let speed: f64 = kani::any();
    kani::assume(speed >= 0.8 && speed <= 8.0);
    let e = DurationEstimator::new(params2(), 1);
    let r = e.create(speed);
    assert!(r.len() == 2 && r[0] >= 1 && r[1] >= 1);
    if speed == 1.0 {
        assert!(r[0] == 3 && r[1] == 5);
    } else {
        let target = (8.0f64 / speed).round().max(1.0) as usize;
        assert!(r[0] + r[1] == if target > 2 { target } else { 2 });
    }
    kani::cover!(speed > 4.0);
    kani::cover!(speed < 1.0);
}

/// C09: three labels, one state each; label 0 ends at e0, label 1 has no end, label 2 ends at e2.
/// Frames up to label 0 = round(e0) (at least 1); labels 1-2 share round(e2 - frames so far) frames
/// (at least one each); every label contributes its state
#[kani::proof]
#[kani::unwind(7)]
fn align_small_model() {
    let e0: f64 = kani::any();
    let e2: f64 = kani::any();
    kani::assume(e0 >= 0.0 && e0 <= 6.0);
    kani::assume(e2 >= 0.0 && e2 <= 10.0);
    let e = DurationEstimator::new(vec![MeanVari(3.0, 1.0), MeanVari(5.0, 4.0), MeanVari(2.0, 1.0)], 1);
    let r = e.create_with_alignment(&[(0.0, e0), (e0, -1.0), (-1.0, e2)]);
    assert!(r.len() == 3);
    assert!(r[0] >= 1 && r[1] >= 1 && r[2] >= 1);
    let fc0 = e0.round().max(1.0) as usize;
    assert!(r[0] == fc0);
    let target = (e2 - fc0 as f64).round().max(1.0) as usize;
    assert!(r[1] + r[2] == if target > 2 { target } else { 2 });
    kani::cover!(fc0 == 1 && target > 4);
}

/// C09: trailing labels without an end time fall back to their model durations
#[kani::proof]
#[kani::unwind(7)]
fn align_trailing_labels() {
    let e0: f64 = kani::any();
    kani::assume(e0 >= 0.0 && e0 <= 6.0);
    let e = DurationEstimator::new(vec![MeanVari(3.0, 1.0), MeanVari(5.0, 4.0), MeanVari(2.0, 1.0)], 1);
    let r = e.create_with_alignment(&[(0.0, e0), (e0, -1.0), (-1.0, -1.0)]);
    assert!(r.len() == 3);
    assert!(r[1] == 5 && r[2] == 2);
    kani::cover!(true);
}

/// C08 floor under repeated shrinking, on the real fit with concrete values (the symbolic version is
/// fit_small_model, thorough): the first rho-based estimate overshoots the target by 3 and by 6 frames, so the
/// shrink branch runs several times and must skip states that have reached one frame
#[kani::proof]
#[kani::unwind(12)]
fn fit_repeated_shrink_keeps_floor() {
    let p = vec![MeanVari(8.0, 0.5), MeanVari(12.0, 0.5), MeanVari(2.0, 0.5)];
    let r = DurationEstimator::estimate_duration_with_frame_length(&p, 5.5);
    assert!(r.len() == 3 && r[0] >= 1 && r[1] >= 1 && r[2] >= 1 && r[0] + r[1] + r[2] == 6);
    let q = vec![MeanVari(12.0, 25.0), MeanVari(5.0, 25.0), MeanVari(8.0, 4.0), MeanVari(8.0, 1.0)];
    let s = DurationEstimator::estimate_duration_with_frame_length(&q, 11.0);
    assert!(s.len() == 4 && s[0] >= 1 && s[1] >= 1 && s[2] >= 1 && s[3] >= 1 && s[0] + s[1] + s[2] + s[3] == 11);
    kani::cover!(true);
}
