//@attach src/vocoder/mod.rs
// K-voc: the holes of Verus unit vocoder (per-sample coefficient increments), pasted verbatim.
// (A harness on Vocoder::synthesize itself exceeds the 12 GB cap even with the excitation and libm
// stubbed - Vocoder::new alone costs 9 s - so synthesize is decided by the Verus unit only.)
//@harness name=hole_cinc_contract tier=quick label=bounded(2-coefficients,fperiod=4,concrete-values) props=C02,C01 timeout=600
use super::*;
use self::coefficients::{Coefficients, GeneralizedCoefficients};

struct Shim { fperiod: usize }
impl Shim {
    fn cinc_z(&self, cc: &Coefficients, coefficients: &Coefficients) -> Vec<f64> {
        let cinc: Vec<_> = /*@HOLE cinc_z@*/;
        cinc
    }
    fn cinc_g(&self, cc: &GeneralizedCoefficients, coefficients: &GeneralizedCoefficients) -> Vec<f64> {
        let cinc: Vec<_> = /*@HOLE cinc_g@*/;
        cinc
    }
}

/// one increment per coefficient of the shorter vector: (target - current) / fperiod.
/// Concrete values (two symbolic divisions compared bit for bit cost CBMC 5 minutes here); the structure
/// checked is the pairing, the order of the subtraction, the divisor and the length.
#[kani::proof]
#[kani::unwind(5)]
fn hole_cinc_contract() {
    let a: [f64; 2] = [1.0, 2.0];
    let b: [f64; 3] = [3.0, 5.0, 7.0];
    let s = Shim { fperiod: 4 };
    let r = s.cinc_z(&Coefficients::new(&a), &Coefficients::new(&b));
    assert!(r.len() == 2);
    assert!(r[0] == -0.5 && r[1] == -0.75);
    let g = s.cinc_g(&GeneralizedCoefficients::new(&b, -0.5), &GeneralizedCoefficients::new(&a, -0.5));
    assert!(g.len() == 2);
    assert!(g[0] == 0.5 && g[1] == 0.75);
    kani::cover!(true);
}
