//@attach src/vocoder/mod.rs
// K-voc: the frame half of the ASSUMED abstract vocoder contract (contracts/verus/vocoder_abs.inc):
// Vocoder::synthesize writes exactly rawdata[0..fperiod] and does not panic under shape_ok (C02, C01).
// libm (exp, ln, sqrt) are uninterpreted stubs; mel-cepstral stage (stage 0), no LPF stream.
//@harness name=synthesize_writes_exactly_one_frame tier=quick label=bounded(nmcp=2,fperiod=1,buffer=3,stage=0) props=C02,C01 timeout=900
//@harness name=synthesize_frame_fperiod2 tier=thorough label=bounded(nmcp=2,fperiod=2,buffer=3,stage=0) props=C02,C01 timeout=1800
use super::*;

fn uf_pos(_x: f64) -> f64 {
    let r: f64 = kani::any();
    kani::assume(r > 0.0 && r.is_finite());
    r
}

fn frame_check(fperiod: usize) {
    let mut v = Vocoder::new(2, 0, 0, false, 48000, 0.5, 0.0, 1.0, fperiod);
    let sp: [f64; 2] = kani::any();
    let lf0: f64 = kani::any();
    kani::assume(lf0 != NODATA && !lf0.is_nan());     // voiced: no call into the (unbounded) Gaussian noise loop
    let mut raw: [f64; 3] = kani::any();
    let before = raw;
    v.synthesize(lf0, &sp, &[], &mut raw);
    let mut i = fperiod;
    while i < 3 {
        assert!(raw[i].to_bits() == before[i].to_bits());   // nothing beyond one frame is written
        i += 1;
    }
    assert!(v.fperiod == fperiod && !v.is_first);
    kani::cover!(true);
}

#[kani::proof]
#[kani::unwind(9)]
#[kani::stub(f64::exp, uf_pos)]
#[kani::stub(f64::sqrt, uf_pos)]
#[kani::stub(f64::ln, uf_pos)]
fn synthesize_writes_exactly_one_frame() { frame_check(1); }

#[kani::proof]
#[kani::unwind(9)]
#[kani::stub(f64::exp, uf_pos)]
#[kani::stub(f64::sqrt, uf_pos)]
#[kani::stub(f64::ln, uf_pos)]
fn synthesize_frame_fperiod2() { frame_check(2); }
