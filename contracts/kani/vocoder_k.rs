//@attach src/vocoder/mod.rs
// K-voc: the frame half of the ASSUMED abstract vocoder contract (contracts/verus/vocoder_abs.inc):
// Vocoder::synthesize writes exactly rawdata[0..fperiod] (C02, C01); the pitch handed to the excitation
// is 0 for the no-data marker and otherwise rate / exp(clamp(lf0, ln 20, ln 20000)) (C07, C11); the
// volume multiplies the filter output (C16).  Excitation::{start,get,end} and libm are stubs; the
// mel-cepstral filter (stage 0) is the real code on 2 coefficients.
// harness (NOT REGISTERED: exceeds the 12 GB cap even with the excitation and libm stubbed; Vocoder::new alone
// costs 9 s, so the cost is in synthesize's body) name=synthesize_frame_and_wiring tier=quick label=bounded(nmcp=2,fperiod=1,buffer=2,stage=0) props=C02,C01,C07,C11,C16 timeout=600
use super::*;

static mut EXP_ARG: f64 = 0.0;
static mut START_PITCH: f64 = -1.0;
static mut END_PITCH: f64 = -1.0;
static mut GETS: usize = 0;

// exp: records its first argument (the clamped log-F0) and returns 2.0 (ASSUMED: positive, finite)
fn stub_exp(x: f64) -> f64 { unsafe { if GETS == 0 && START_PITCH < 0.0 { EXP_ARG = x; } } 2.0 }
fn stub_start(_e: &mut Excitation, pitch: f64, _fperiod: usize) { unsafe { START_PITCH = pitch; } }
fn stub_get(_e: &mut Excitation, _lpf: &[f64]) -> f64 { unsafe { GETS += 1; } 0.0 }
fn stub_end(_e: &mut Excitation, pitch: f64) { unsafe { END_PITCH = pitch; } }

#[kani::proof]
#[kani::unwind(8)]
#[kani::stub(f64::exp, stub_exp)]
#[kani::stub(Excitation::start, stub_start)]
#[kani::stub(Excitation::get, stub_get)]
#[kani::stub(Excitation::end, stub_end)]
fn synthesize_frame_and_wiring() {
    let mut v = Vocoder::new(2, 0, 0, false, 48000, 0.5, 0.0, 1.0, 1);
    let sp: [f64; 2] = [0.0, 0.0];
    let lf0: f64 = kani::any();
    kani::assume(!lf0.is_nan());
    let mut raw: [f64; 2] = [7.0, 7.0];
    v.synthesize(lf0, &sp, &[], &mut raw);
    assert!(raw[1] == 7.0);                       // nothing beyond one frame is written
    unsafe {
        assert!(GETS == 1);                       // exactly fperiod excitation samples are drawn
        if lf0 == NODATA {
            assert!(START_PITCH == 0.0 && END_PITCH == 0.0);          // no-data marker -> period 0 (noise)
        } else {
            let c = if lf0 < MIN_LF0 { MIN_LF0 } else if lf0 > MAX_LF0 { MAX_LF0 } else { lf0 };
            assert!(EXP_ARG == c);                                    // F0 limited to 20 Hz .. 20 kHz
            assert!(START_PITCH == 48000.0 / 2.0 && END_PITCH == START_PITCH);   // period = rate / exp(.)
        }
    }
    kani::cover!(lf0 == NODATA);
    kani::cover!(lf0 > MAX_LF0);
}

