//@attach src/vocoder/mod.rs
// K-sample: the statement of Vocoder::synthesize that writes an output sample, in both filter families (C16: "volume v
// multiplies every output sample by 10^(v/20) and changes nothing else"; C02: a frame's samples depend on nothing that
// was in the caller's buffer).  synthesize itself is decided by Verus unit vocoder (out of CBMC's reach); the statement
// between the coefficient update loop and the end of the per-sample closure is cut from the text on every run (SLICE)
// and evaluated for ALL values of the filter output x and of the previous buffer content, at four volumes: the sample
// must be x * volume bit for bit, whatever was in the buffer.
//@harness name=output_sample_is_filter_output_times_volume tier=quick label=bounded(volumes-1-2-0.5-0.25,all-x,all-buffer-contents) props=C16,C02 timeout=900
use super::*;

pub struct SVoc { volume: f64 }
impl SVoc {
    fn sample_zero_stage(&self, rawdata: &mut [f64], i: usize, x: f64) {
        /*@SLICE src/vocoder/mod.rs :: impl Vocoder :: fn synthesize :: from "coefficients[i] += cinc[i]; }" occ 1 to "});"@*/
    }
    fn sample_nonzero_stage(&self, rawdata: &mut [f64], i: usize, x: f64) {
        /*@SLICE src/vocoder/mod.rs :: impl Vocoder :: fn synthesize :: from "coefficients[i] += cinc[i]; }" occ 2 to "});"@*/
    }
}

fn check_volume(volume: f64) {
    let v = SVoc { volume };
    let x: f64 = kani::any();
    let before: f64 = kani::any();
    kani::assume(!x.is_nan());
    let want = x * volume;
    let mut buf = [before, before];
    v.sample_zero_stage(&mut buf, 1, x);
    assert!(buf[1].to_bits() == want.to_bits() && buf[0].to_bits() == before.to_bits());
    let mut buf2 = [before, before];
    v.sample_nonzero_stage(&mut buf2, 0, x);
    assert!(buf2[0].to_bits() == want.to_bits() && buf2[1].to_bits() == before.to_bits());
    kani::cover!(want > 40000.0);
    kani::cover!(before != 0.0);
}

/// every filter output x and every previous buffer content; volumes 1, 2, 0.5 and 0.25 (a fully symbolic volume makes
/// the product a 53 x 53 bit multiplier: 4 minutes on the unchanged tree, 13 on a changed one; the general volume is the
/// `#gain` obligation of Verus unit vocoder)
#[kani::proof]
fn output_sample_is_filter_output_times_volume() {
    check_volume(1.0);
    check_volume(2.0);
    check_volume(0.5);
    check_volume(0.25);
}
