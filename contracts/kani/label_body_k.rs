//@attach src/label.rs
// K-lbl-body: the REAL BODY of Labels::load_from_strings, cut from the tree under check on every run (BODY
// placeholder), executed against an abstraction of the string layer (C17 control flow, C09 time scaling).
// Calling the real function reaches core's dec2flt and jlabel's parser, each of which exhausts CBMC on one
// token (label_k.rs).  The shim gives the body the same method names on a pre-tokenised line:
//   line.as_ref() -> &SStr;  a line is its sequence of space-separated words;  SStr::splitn(n, ' ') yields the first
//   n - 1 words and then the rest of the line as ONE token (the n-th word itself if it is the last, otherwise a token
//   that parses as nothing: ASSUMED - text containing the separator is neither a time nor a label);  SStr::split(' ')
//   yields every word;  is_empty();
//   parse::<f64>() / parse::<SLabel>() return the value or the error the token was built with;
//   to_string() returns an empty String;  Self::new records its arguments (the real Labels::new is
//   proved in Verus unit labels).
// What the shim drops: how a line is split into tokens and how a token is parsed (core / jlabel: assumed
// panic-free and deterministic, listed in the evidence).  Bounded: <= 3 lines.
//@harness name=body_three_tokens_scaled_times tier=quick label=bounded(2-lines,shim-strings) props=C17,C09 timeout=900
//@harness name=body_one_token_blank_and_missing_label tier=quick label=bounded(3-lines,shim-strings) props=C17 timeout=900
//@harness name=body_parse_errors_are_error_values tier=quick label=bounded(1-2-lines,shim-strings) props=C17 timeout=900
use super::*;

#[derive(Clone, Copy, PartialEq, Debug)]
pub struct SLabel(u32);
pub struct SFloatErr;
pub struct SLabelErr;
impl From<SFloatErr> for LabelError { fn from(_: SFloatErr) -> Self { LabelError::LengthMismatch } }
impl From<SLabelErr> for LabelError { fn from(_: SLabelErr) -> Self { LabelError::LengthMismatch } }

/// a token (or a whole line: then `toks` lists its space-separated words and `rest` holds the one unparsable token
/// that stands for "several words with the separators between them")
/// `text` is the line as written: only its length, byte-range slicing and to_string are taken from it (with std's own
/// char-boundary rules), never its tokenisation
pub struct SStr { empty: bool, float: Option<f64>, label: Option<SLabel>, toks: Vec<SStr>, rest: Vec<SStr>, text: &'static str }
impl std::ops::Index<std::ops::RangeTo<usize>> for SStr {
    type Output = str;
    fn index(&self, r: std::ops::RangeTo<usize>) -> &str { &self.text[r] }
}
pub struct SSplit<'a> { s: &'a SStr, pos: usize, n: usize }
impl<'a> Iterator for SSplit<'a> {
    type Item = &'a SStr;
    fn next(&mut self) -> Option<&'a SStr> {
        let words = self.s.toks.len();
        if self.pos >= words || self.pos >= self.n { return None; }
        if self.pos + 1 == self.n && words > self.n {
            // the last piece of splitn: everything that is left, separators included
            self.pos = words;
            return Some(&self.s.rest[0]);
        }
        self.pos += 1;
        Some(&self.s.toks[self.pos - 1])
    }
}
pub trait SParse: Sized { type Err; fn from_tok(t: &SStr) -> Result<Self, Self::Err>; }
impl SParse for f64 {
    type Err = SFloatErr;
    fn from_tok(t: &SStr) -> Result<f64, SFloatErr> { match t.float { Some(x) => Ok(x), None => Err(SFloatErr) } }
}
impl SParse for SLabel {
    type Err = SLabelErr;
    fn from_tok(t: &SStr) -> Result<SLabel, SLabelErr> { match t.label { Some(x) => Ok(x), None => Err(SLabelErr) } }
}
impl SStr {
    fn tok(empty: bool, float: Option<f64>, label: Option<SLabel>) -> SStr { SStr { empty, float, label, toks: Vec::new(), rest: Vec::new(), text: "" } }
    fn line(toks: Vec<SStr>) -> SStr { SStr::line_with_text(toks, "") }
    fn line_with_text(toks: Vec<SStr>, text: &'static str) -> SStr {
        SStr { empty: false, float: None, label: None, toks, rest: vec![SStr::tok(false, None, None)], text }
    }
    fn len(&self) -> usize { self.text.len() }
    fn splitn(&self, n: usize, _sep: char) -> SSplit<'_> { SSplit { s: self, pos: 0, n } }
    #[allow(dead_code)]
    fn split(&self, _sep: char) -> SSplit<'_> { SSplit { s: self, pos: 0, n: usize::MAX } }
    fn is_empty(&self) -> bool { self.empty }
    fn parse<T: SParse>(&self) -> Result<T, T::Err> { T::from_tok(self) }
    fn to_string(&self) -> String { String::new() }
}
pub struct SLine(SStr);
impl SLine { fn as_ref(&self) -> &SStr { &self.0 } }

pub struct SLabels { labels: Vec<SLabel>, times: Vec<(f64, f64)> }
impl SLabels {
    fn new(labels: Vec<SLabel>, times: Option<Vec<(f64, f64)>>) -> Result<Self, LabelError> {
        match times { Some(times) => Ok(SLabels { labels, times }), None => Err(LabelError::LengthMismatch) }
    }
    fn load_from_strings(sampling_rate: usize, fperiod: usize, lines: &[SLine]) -> Result<Self, LabelError>
    /*@BODY src/label.rs :: impl Labels :: fn load_from_strings@*/
}

fn num(x: f64) -> SStr { SStr::tok(false, Some(x), None) }
fn lab(k: u32) -> SStr { SStr::tok(false, None, Some(SLabel(k))) }
fn junk() -> SStr { SStr::tok(false, None, None) }

/// three tokens: start and end are the first and second token, each multiplied by
/// sampling_rate / (fperiod * 1e7); the label is the third; lines keep their order
#[kani::proof]
#[kani::unwind(6)]
fn body_three_tokens_scaled_times() {
    let lines = [SLine(SStr::line(vec![num(0.0), num(2500000.0), lab(7)])),
                 SLine(SStr::line(vec![num(2500000.0), num(7500000.0), lab(9)]))];
    let r = SLabels::load_from_strings(48000, 240, &lines);
    let rate = 48000 as f64 / (240 as f64 * 1e+7);
    match &r {
        Ok(l) => {
            assert!(l.labels.len() == 2 && l.labels[0] == SLabel(7) && l.labels[1] == SLabel(9));
            assert!(l.times.len() == 2);
            assert!(l.times[0].0 == 0.0 * rate && l.times[0].1 == 2500000.0 * rate);
            assert!(l.times[1].0 == 2500000.0 * rate && l.times[1].1 == 7500000.0 * rate);
            // 0.25 s and 0.75 s at 200 frames per second, up to the rounding of the rate
            assert!((l.times[0].1 - 50.0).abs() < 1e-9 && (l.times[1].1 - 150.0).abs() < 1e-9);
        }
        Err(_) => assert!(false),
    }
    // a sampling rate the frame period does not divide (44100 / 220 = 200.45..): the factor is
    // sampling_rate / (fperiod * 1e7), not (sampling_rate / fperiod) / 1e7 in integers
    let r2 = SLabels::load_from_strings(44100, 220, &lines);
    let rate2 = 44100 as f64 / (220 as f64 * 1e+7);
    match &r2 {
        Ok(l) => {
            assert!(l.times[1].1 == 7500000.0 * rate2);
            assert!((l.times[1].1 - 150.3409090909091).abs() < 1e-9);
        }
        Err(_) => assert!(false),
    }
    kani::cover!(true);
    std::mem::forget(r);
    std::mem::forget(r2);
    std::mem::forget(lines);
}

/// one token -> that label with times (-1, -1); an empty line is skipped; two tokens -> MissingLabel
#[kani::proof]
#[kani::unwind(6)]
fn body_one_token_blank_and_missing_label() {
    let lines = [SLine(SStr::line(vec![lab(3)])),
                 SLine(SStr::line(vec![SStr::tok(true, None, None)])),
                 SLine(SStr::line(vec![lab(4)]))];
    let r = SLabels::load_from_strings(48000, 240, &lines);
    match &r {
        Ok(l) => {
            assert!(l.labels.len() == 2 && l.labels[0] == SLabel(3) && l.labels[1] == SLabel(4));
            assert!(l.times.len() == 2 && l.times[0] == (-1.0, -1.0) && l.times[1] == (-1.0, -1.0));
        }
        Err(_) => assert!(false),
    }
    // no line at all: an empty label sequence, not an error
    let none: [SLine; 0] = [];
    let r0 = SLabels::load_from_strings(48000, 240, &none);
    match &r0 { Ok(l) => assert!(l.labels.is_empty() && l.times.is_empty()), Err(_) => assert!(false) }
    std::mem::forget(r0);
    // the offending line is 3 ASCII bytes followed by 17 two-byte characters: whatever the error value echoes of it must
    // not be cut inside a character
    let lines2 = [SLine(SStr::line(vec![lab(3)])), SLine(SStr::line_with_text(vec![num(0.0), num(5.0)],
        "0 5\u{e9}\u{e9}\u{e9}\u{e9}\u{e9}\u{e9}\u{e9}\u{e9}\u{e9}\u{e9}\u{e9}\u{e9}\u{e9}\u{e9}\u{e9}\u{e9}\u{e9}"))];
    let r2 = SLabels::load_from_strings(48000, 240, &lines2);
    assert!(matches!(r2, Err(LabelError::MissingLabel(_))));
    kani::cover!(true);
    std::mem::forget(r);
    std::mem::forget(r2);
    std::mem::forget(lines);
    std::mem::forget(lines2);
}

/// a token that does not parse (as a time, or as a label) gives an error value, never a panic or a skipped line
#[kani::proof]
#[kani::unwind(6)]
fn body_parse_errors_are_error_values() {
    let a = [SLine(SStr::line(vec![junk(), num(5.0), lab(1)]))];
    let b = [SLine(SStr::line(vec![num(0.0), junk(), lab(1)]))];
    let c = [SLine(SStr::line(vec![num(0.0), num(5.0), junk()]))];
    let d = [SLine(SStr::line(vec![lab(1)])), SLine(SStr::line(vec![junk()]))];
    // text after the label of a timed line belongs to the label token (the rest of the line), which then does not parse
    let e = [SLine(SStr::line(vec![num(0.0), num(5.0), lab(1), lab(2)]))];
    let re = SLabels::load_from_strings(48000, 240, &e);
    assert!(re.is_err());
    std::mem::forget(re);
    std::mem::forget(e);
    let ra = SLabels::load_from_strings(48000, 240, &a);
    let rb = SLabels::load_from_strings(48000, 240, &b);
    let rc = SLabels::load_from_strings(48000, 240, &c);
    let rd = SLabels::load_from_strings(48000, 240, &d);
    assert!(ra.is_err() && rb.is_err() && rc.is_err() && rd.is_err());
    kani::cover!(true);
    std::mem::forget((ra, rb, rc, rd));
    std::mem::forget((a, b, c, d));
}
