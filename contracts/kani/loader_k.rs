//@attach src/model/parser/mod.rs
// K-ldr (1): section slicing by header-supplied ranges must be an error, not a panic (C18).
//@harness name=parse_all_no_panic tier=quick label=bounded(input<=4) props=C18 timeout=600
use super::*;

/// parse_all(f, range)(input): for EVERY range (inverted, out of bounds, usize::MAX) the result is
/// Ok or Err, never a panic; when Ok, the parser saw exactly input[range.0..=range.1]
#[kani::proof]
#[kani::unwind(6)]
fn parse_all_no_panic() {
    let data: [u8; 4] = kani::any();
    let n: usize = kani::any();
    kani::assume(n <= 4);
    let input: &[u8] = &data[..n];
    let range: (usize, usize) = (kani::any(), kani::any());
    let r: nom::IResult<&[u8], &[u8], nom::error::Error<&[u8]>> =
        parse_all(nom::combinator::rest::<&[u8], nom::error::Error<&[u8]>>, range)(input);
    match r {
        Ok((rest, seen)) => {
            assert!(rest.is_empty());
            assert!(range.0 <= range.1 + 1 && range.1 < n);
            assert!(seen.len() == range.1 + 1 - range.0);
        }
        Err(_) => {
            assert!(range.1 == usize::MAX || range.0 > range.1 + 1 || range.1 >= n);
        }
    }
    kani::cover!(n == 4 && range.0 == 1 && range.1 == 2);
}
