//@attach src/model/mod.rs
// K-models-slice: the pieces of Models::{duration, stream, gv} that decide WHICH weight vector, WHICH model and
// WHICH state feed each quantity (C10), how a missing MSD weight is mapped (C11) and how the GV switch is formed
// (C12).  The whole bodies exhaust CBMC because of their flat_map / collect chains (models_body_k.rs, kept
// unregistered), so the statements in front of the chain and the closure bodies inside it are cut from the text on
// every run (SLICE placeholders) and run in the shim environment described in models_body_k.rs: `weighted(w, sel)`
// returns `sel(voice)` with the identity of `w` written into the variance fields.  Not covered here: the order in
// which flat_map / collect lay the pieces out (label-major, then state) and the state range 2..2+nstate.
//@harness name=duration_piece_uses_duration_weights tier=quick label=bounded(shim-environment,concrete-values) props=C10 timeout=900
//@harness name=stream_piece_uses_parameter_weights_and_maps_msd tier=quick label=bounded(shim-environment,concrete-values) props=C10,C11 timeout=900
//@harness name=gv_piece_uses_gv_weights_and_switch tier=quick label=bounded(shim-environment,concrete-values) props=C10,C12 timeout=900
use super::*;

pub struct SLabel(usize);
pub struct SModel { base: f64, nl: usize, msd: Option<f64>, table: Vec<ModelParameter> }
impl SModel {
    /// 2 labels x `ns` states (ns <= 2), literal tables (loops building them cost CBMC minutes)
    fn new(base: f64, ns: usize, nl: usize, width: usize, msd: Option<f64>) -> Self {
        let e = |l: usize, s: usize| ModelParameter {
            parameters: if width == 2 {
                vec![MeanVari(base + (100 * l + 10 * s) as f64, 1.0), MeanVari(base + (100 * l + 10 * s + 1) as f64, 1.0)]
            } else {
                vec![MeanVari(base + (100 * l + 10 * s) as f64, 1.0)]
            },
            msd,
        };
        let table = if ns == 2 { vec![e(0, 0), e(1, 0), e(0, 1), e(1, 1)] } else { vec![e(0, 0), e(1, 0)] };
        SModel { base, nl, msd, table }
    }
    fn get_parameter(&self, state_index: usize, label: &SLabel) -> &ModelParameter {
        &self.table[(state_index - 2) * self.nl + label.0]
    }
}
pub struct SStream { stream_model: SModel, gv_model: Option<SModel> }
pub struct SVoice { duration_model: SModel, stream_models: Vec<SStream> }
pub struct SQuestion(Vec<bool>);
impl SQuestion { fn test(&self, label: &SLabel) -> bool { self.0[label.0] } }
pub struct SGlobal { num_states: usize, gv_off_context: SQuestion }
pub struct SStreamMeta { use_gv: bool, vector_length: usize }
pub struct SW(f64);
pub struct SIW { d: SW, p: Vec<SW>, g: Vec<SW> }
impl SIW {
    fn get_duration(&self) -> &SW { &self.d }
    fn get_parameter(&self, i: usize) -> &SW { &self.p[i] }
    fn get_gv(&self, i: usize) -> &SW { &self.g[i] }
}
pub struct SVoices { voice: SVoice, g: SGlobal, sm: Vec<SStreamMeta> }
impl SVoices {
    fn global_metadata(&self) -> &SGlobal { &self.g }
    fn stream_metadata(&self, i: usize) -> &SStreamMeta { &self.sm[i] }
    /// the selected parameter, with the identity of the weight vector in every variance field
    fn weighted<F: Fn(&SVoice) -> &ModelParameter>(&self, weights: &SW, param: F) -> ModelParameter {
        let p = param(&self.voice);
        let mut parameters = Vec::new();
        let mut k = 0;
        while k < p.parameters.len() {
            parameters.push(MeanVari(p.parameters[k].0, weights.0));
            k += 1;
        }
        ModelParameter { parameters, msd: p.msd }
    }
}
pub struct SModels { labels: Vec<SLabel>, voices: SVoices, weights: SIW }
impl SModels {
    fn duration_piece(&self, label: &SLabel) -> Vec<MeanVari> {
        /*@SLICE src/model/mod.rs :: impl Models :: fn duration :: from "pub fn duration(&self) -> Vec<MeanVari> {" to "self.labels"@*/
        /*@SLICE src/model/mod.rs :: impl Models :: fn duration :: from ".flat_map(|label| {" to "}) .collect()"@*/
    }
    fn stream_piece(&self, stream_index: usize, state_index: usize, label: &SLabel) -> (Vec<MeanVari>, f64) {
        /*@SLICE src/model/mod.rs :: impl Models :: fn stream :: from "fn stream(&self, stream_index: usize) -> StreamParameter {" to "let inner"@*/
        /*@SLICE src/model/mod.rs :: impl Models :: fn stream :: from ".map(|state_index| {" to "}) }) .collect();"@*/
    }
    fn gv_piece(&self, stream_index: usize) -> Option<(Vec<MeanVari>, bool)> {
        /*@SLICE src/model/mod.rs :: impl Models :: fn gv :: from "fn gv(&self, stream_index: usize) -> Option<GvParameter> {" to "let gv_switch"@*/
        let switch_of_first_label = {
            /*@SLICE src/model/mod.rs :: impl Models :: fn gv :: from ".flat_map(|label| {" to "[switch]"@*/
            switch
        };
        Some((params.parameters, switch_of_first_label))
    }
}

/// the smallest world: 1 label, 1 state, 2 streams (stream 0: MSD 0.75 + GV, stream 1: no MSD, no GV)
fn small_world(gv_off: bool) -> SModels {
    let one = |v: f64, msd: Option<f64>| SModel { base: v, nl: 1, msd, table: vec![ModelParameter { parameters: vec![MeanVari(v, 1.0)], msd }] };
    SModels {
        labels: vec![SLabel(0)],
        voices: SVoices {
            voice: SVoice {
                duration_model: one(5000.0, None),
                stream_models: vec![SStream { stream_model: one(1000.0, Some(0.75)), gv_model: Some(one(7000.0, None)) },
                                    SStream { stream_model: one(2000.0, None), gv_model: None }],
            },
            g: SGlobal { num_states: 1, gv_off_context: SQuestion(vec![gv_off]) },
            sm: vec![SStreamMeta { use_gv: true, vector_length: 1 }, SStreamMeta { use_gv: false, vector_length: 1 }],
        },
        weights: SIW { d: SW(11.0), p: vec![SW(20.0), SW(21.0)], g: vec![SW(30.0), SW(31.0)] },
    }
}


#[kani::proof]
#[kani::unwind(4)]
fn duration_piece_uses_duration_weights() {
    let m = small_world(false);
    let d = m.duration_piece(&m.labels[0]);
    assert!(d.len() == 1 && d[0].0 == 5000.0 && d[0].1 == 11.0);
    kani::cover!(true);
    std::mem::forget(m);
}

#[kani::proof]
#[kani::unwind(4)]
fn stream_piece_uses_parameter_weights_and_maps_msd() {
    let m = small_world(false);
    let s0 = m.stream_piece(0, 2, &m.labels[0]);
    assert!(s0.0.len() == 1 && s0.0[0].0 == 1000.0 && s0.0[0].1 == 20.0 && s0.1 == 0.75);
    let s1 = m.stream_piece(1, 2, &m.labels[0]);
    assert!(s1.0.len() == 1 && s1.0[0].0 == 2000.0 && s1.0[0].1 == 21.0 && s1.1 == f64::MAX);
    kani::cover!(true);
    std::mem::forget(m);
}

#[kani::proof]
#[kani::unwind(4)]
fn gv_piece_uses_gv_weights_and_switch() {
    let m = small_world(false);
    let g = m.gv_piece(0).unwrap();
    assert!(g.0.len() == 1 && g.0[0].0 == 7000.0 && g.0[0].1 == 30.0 && g.1);
    assert!(m.gv_piece(1).is_none());
    let m2 = small_world(true);
    let g2 = m2.gv_piece(0).unwrap();
    assert!(!g2.1);
    kani::cover!(true);
    std::mem::forget((m, m2));
}
