//@attach src/mlpg_adjust/mlpg.rs
// K-solve: MlpgMatrix::solve on an exact instance of the property's own statement (C05: the result solves
// R c = r for the band matrix R = W'U^-1W).  R = L D L' is built from dyadic factors so that every intermediate of
// the real ldl_factorization and substitutions is exact: 4 frames, band width 3 (two off-diagonals) with only 2
// windows' worth of `win_size`, the configuration in which a bound taken from the wrong field loses an off-diagonal.
// Expected factors and solution were computed over the rationals.  The anchor-independent, bit-precise counterpart of
// Verus unit mlpgsolve.  Bounded (4 frames, concrete values).
//@harness name=solve_recovers_the_exact_solution tier=quick label=bounded(4-frames,width-3,concrete-exact-values) props=C05 timeout=900
//@harness name=solve_recovers_the_exact_solution_width5 tier=quick label=bounded(6-frames,width-5,concrete-exact-values) props=C05 timeout=900
use super::*;

#[kani::proof]
#[kani::unwind(8)]
fn solve_recovers_the_exact_solution() {
    let mut m = MlpgMatrix {
        win_size: 2,
        length: 4,
        width: 3,
        wuw: vec![vec![4.0, 2.0, 1.0], vec![5.0, 2.5, 1.0], vec![9.25, 4.5, 0.0], vec![6.25, 0.0, 0.0]],
        wum: vec![11.0, 23.5, 51.75, 40.5],
    };
    let c = m.solve();
    assert!(c.len() == 4 && c[0] == 1.0 && c[1] == 2.0 && c[2] == 3.0 && c[3] == 4.0);
    // the matrix is left factored in place: D on the diagonal, L on the off-diagonals
    assert!(m.wuw[0][0] == 4.0 && m.wuw[1][0] == 4.0 && m.wuw[2][0] == 8.0 && m.wuw[3][0] == 4.0);
    assert!(m.wuw[0][1] == 0.5 && m.wuw[0][2] == 0.25 && m.wuw[1][1] == 0.5 && m.wuw[1][2] == 0.25 && m.wuw[2][1] == 0.5);
    kani::cover!(true);
}

/// the same with four off-diagonals (width-5 dynamic windows): here every pair (i, j) of off-diagonal indices occurs
/// in the elimination terms L_{t,t-j} L_{t+i,t-j} D_{t-j}, not just (1, 1)
#[kani::proof]
#[kani::unwind(10)]
fn solve_recovers_the_exact_solution_width5() {
    let mut m = MlpgMatrix {
        win_size: 3,
        length: 6,
        width: 5,
        wuw: vec![vec![4.0, 2.0, 1.0, -2.0, 0.5], vec![9.0, -3.5, -3.0, 4.25, -1.0], vec![6.25, 2.5, -0.875, -1.5, 0.0],
                  vec![18.5, -8.75, -4.75, 0.0, 0.0], vec![14.3125, 5.0, 0.0, 0.0, 0.0], vec![8.125, 0.0, 0.0, 0.0, 0.0]],
        wum: vec![4.0, -10.0, 26.0, -9.5, 37.25, 7.0],
    };
    let c = m.solve();
    assert!(c.len() == 6 && c[0] == 1.0 && c[1] == -2.0 && c[2] == 3.0 && c[3] == 0.5 && c[4] == 4.0 && c[5] == -1.0);
    assert!(m.wuw[0][0] == 4.0 && m.wuw[1][0] == 8.0 && m.wuw[2][0] == 4.0 && m.wuw[3][0] == 16.0 && m.wuw[4][0] == 8.0 && m.wuw[5][0] == 4.0);
    kani::cover!(true);
}
