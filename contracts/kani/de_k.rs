//@attach src/model/parser/header/de.rs
// K-ldr (2): unsigned integer accumulation in the header deserializer (C18).
//@harness name=parse_unsigned_no_panic_u8 tier=quick label=bounded(digits=4) props=C18 timeout=600
//@harness name=parse_unsigned_no_panic_usize tier=quick label=bounded(digits=21) props=C18 timeout=900
use super::*;

/// every string of 4 decimal digits parses as u8 to Ok(value) when it fits and to Err otherwise; no panic
#[kani::proof]
#[kani::unwind(8)]
fn parse_unsigned_no_panic_u8() {
    let d: [u8; 4] = kani::any();
    kani::assume(d[0] >= b'0' && d[0] <= b'9' && d[1] >= b'0' && d[1] <= b'9' && d[2] >= b'0' && d[2] <= b'9' && d[3] >= b'0' && d[3] <= b'9');
    let s = unsafe { std::str::from_utf8_unchecked(&d) };
    let mut de = Deserializer::from_str(s);
    let r: Result<u8> = de.parse_unsigned();
    let v = (d[0] - b'0') as u32 * 1000 + (d[1] - b'0') as u32 * 100 + (d[2] - b'0') as u32 * 10 + (d[3] - b'0') as u32;
    match r {
        Ok(x) => assert!(x as u32 == v),
        Err(_) => assert!(v > 255),
    }
    kani::cover!(v == 255);
    kani::cover!(v == 256);
}

/// 21 decimal digits never fit a usize: an error, not an arithmetic-overflow panic
#[kani::proof]
#[kani::unwind(24)]
fn parse_unsigned_no_panic_usize() {
    let d: [u8; 21] = kani::any();
    let mut i = 0;
    while i < 21 { kani::assume(d[i] >= b'0' && d[i] <= b'9'); i += 1; }
    kani::assume(d[0] != b'0');
    let s = unsafe { std::str::from_utf8_unchecked(&d) };
    let mut de = Deserializer::from_str(s);
    let r: Result<usize> = de.parse_unsigned();
    assert!(r.is_err());
}
