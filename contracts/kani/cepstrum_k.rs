//@attach src/vocoder/cepstrum.rs
// K-cep: the real CepstrumT::{freqt, mc2b, c2ir} and CoefficientsT::b2mc at the instances MelCepstrum / Coefficients
// on small exact inputs, against values computed over the rationals from the textbook definitions (SPTK freqt;
// b_m = c_m - a b_{m+1}; c_m = b_m + a b_{m+1}; h_n = sum_k k c_k h_{n-k} / n).  The anchor-independent, bit-precise
// counterpart of Verus units freqt, mc2b and c2ir (C14).  alpha = 0.5 and dyadic coefficients keep every intermediate
// exact; exp is stubbed (libm is not modelled by CBMC) and only used at 0.  Bounded (3-4 coefficients).
//@harness name=freqt_matches_the_definition tier=quick label=bounded(3-coefficients->order-3,concrete-exact-values) props=C14 timeout=900
//@harness name=mc2b_b2mc_match_the_definition tier=quick label=bounded(4-coefficients,concrete-exact-values) props=C14 timeout=900
//@harness name=c2ir_matches_the_definition tier=quick label=bounded(3-coefficients,3-taps,concrete-exact-values) props=C14 timeout=900
use super::*;
use crate::vocoder::coefficients::{Coefficients, CoefficientsT};

#[kani::proof]
#[kani::unwind(8)]
fn freqt_matches_the_definition() {
    let c = MelCepstrum::new(&[1.0, 2.0, -0.5], 0.0);
    let g = c.freqt(3, 0.5);
    assert!(g.len() == 4 && g[0] == 1.875 && g[1] == 1.125 && g[2] == -0.84375 && g[3] == 0.5625);
    kani::cover!(true);
}

#[kani::proof]
#[kani::unwind(8)]
fn mc2b_b2mc_match_the_definition() {
    let c = MelCepstrum::new(&[1.0, 2.0, -0.5, 4.0], 0.5);
    let b = c.mc2b();
    assert!(b.len() == 4 && b[0] == -0.625 && b[1] == 3.25 && b[2] == -2.5 && b[3] == 4.0);
    // alpha == 0: b = c
    let c0 = MelCepstrum::new(&[1.0, 2.0, -0.5, 4.0], 0.0);
    let b0 = c0.mc2b();
    assert!(b0[0] == 1.0 && b0[1] == 2.0 && b0[2] == -0.5 && b0[3] == 4.0);
    let back = Coefficients::new(&[1.0, 2.0, -0.5, 4.0]).b2mc(0.5);
    assert!(back.len() == 4 && back[0] == 2.0 && back[1] == 1.75 && back[2] == 1.5 && back[3] == 4.0);
    // b2mc inverts mc2b on these values
    let rt = b.b2mc(0.5);
    assert!(rt[0] == 1.0 && rt[1] == 2.0 && rt[2] == -0.5 && rt[3] == 4.0);
    kani::cover!(true);
}

fn exp_at_zero(x: f64) -> f64 { if x == 0.0 { 1.0 } else { kani::any() } }

#[kani::proof]
#[kani::unwind(8)]
#[kani::stub(f64::exp, exp_at_zero)]
fn c2ir_matches_the_definition() {
    let c = MelCepstrum::new(&[0.0, 0.5, -0.25], 0.0);
    let h = c.c2ir(3);
    assert!(h.len() == 3 && h[0] == 1.0 && h[1] == 0.5 && h[2] == -0.125);
    kani::cover!(true);
}
