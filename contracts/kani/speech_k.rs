//@attach src/speech.rs
// NOT REGISTERED: under CBMC the harnesses report `__rust_dealloc` layout / `free` failures inside Kani's own
// allocator model (kani_lib.c) when the generator is dropped - jbonsai has no unsafe code, so this is a
// modelling artefact, and each run costs 5-12 GB.  C02 is decided by the Verus unit `speech` alone.
// K-speech: API-level (refactoring-robust, bounded) counterpart of the Verus contracts of unit
// `speech` (C02, C01): 2 frames, fperiod 1, every history "k <= 3 steps with buffers of 1 or 2 samples,
// then finish".  The vocoder is stubbed by a deterministic function of (frames rendered so far, lf0) that
// writes exactly fperiod samples - i.e. the abstract vocoder contract of the Verus unit.
// harness (NOT REGISTERED) name=history_0_steps_then_finish tier=quick label=bounded(2-frames,fperiod=1) props=C02,C01 timeout=400
// harness (NOT REGISTERED) name=history_1_step_then_finish tier=quick label=bounded(2-frames,fperiod=1,buffer<=2) props=C02,C01 timeout=400
// harness (NOT REGISTERED) name=history_2_steps_then_finish tier=quick label=bounded(2-frames,fperiod=1,buffer<=2) props=C02,C01 timeout=400
// harness (NOT REGISTERED) name=history_3_steps_then_finish tier=quick label=bounded(2-frames,fperiod=1,buffer<=2) props=C02,C01 timeout=400
use super::*;

static mut RENDERED: usize = 0;

fn stub_synthesize(_v: &mut Vocoder, lf0: f64, _spectrum: &[f64], _lpf: &[f64], rawdata: &mut [f64]) {
    unsafe {
        RENDERED += 1;
        rawdata[0] = lf0 + (RENDERED * 100) as f64;
    }
}

fn history(k: usize) {
    let vocoder = Vocoder::new(2, 0, 0, false, 48000, 0.5, 0.0, 1.0, 1);
    let mut g = SpeechGenerator::new(
        1,
        vocoder,
        vec![vec![0.0, 0.0], vec![0.0, 0.0]],
        vec![vec![1.0], vec![2.0]],
        vec![vec![], vec![]],
    );
    assert!(g.fperiod() == 1 && g.synthesized_frames() == 0);
    // the one-shot waveform this generator must produce
    let want = [101.0, 202.0];
    let mut out = [0.0f64; 2];
    let mut produced = 0;
    let mut i = 0;
    while i < 3 {
        if i < k {
            let long: bool = kani::any();
            let mut buf = [7.0f64; 2];
            let r = if long { g.generate_step(&mut buf[..]) } else { g.generate_step(&mut buf[..1]) };
            if produced < 2 {
                assert!(r == 1);
                out[produced] = buf[0];
                assert!(buf[1] == 7.0);      // nothing beyond one frame is written
                produced += 1;
            } else {
                assert!(r == 0 && buf[0] == 7.0 && buf[1] == 7.0);   // exhausted: returns 0, writes nothing
            }
            assert!(g.synthesized_frames() == produced);
        }
        i += 1;
    }
    let rest = g.generate_all();
    assert!(rest.len() == 2 - produced);
    let mut j = 0;
    while j < 2 {
        let v = if j < produced { out[j] } else { rest[j - produced] };
        assert!(v == want[j]);
        j += 1;
    }
}
// one harness per history length (a symbolic number of steps makes the remainder buffer of
// generate_all a symbolic-length Vec, which CBMC cannot afford); buffer sizes stay symbolic
#[kani::proof]
#[kani::unwind(8)]
#[kani::stub(Vocoder::synthesize, stub_synthesize)]
fn history_0_steps_then_finish() { history(0); kani::cover!(true); }
#[kani::proof]
#[kani::unwind(8)]
#[kani::stub(Vocoder::synthesize, stub_synthesize)]
fn history_1_step_then_finish() { history(1); kani::cover!(true); }
#[kani::proof]
#[kani::unwind(8)]
#[kani::stub(Vocoder::synthesize, stub_synthesize)]
fn history_2_steps_then_finish() { history(2); kani::cover!(true); }
#[kani::proof]
#[kani::unwind(8)]
#[kani::stub(Vocoder::synthesize, stub_synthesize)]
fn history_3_steps_then_finish() { history(3); kani::cover!(true); }
