//@attach src/speech.rs
// K-speech: API-level (refactoring-robust, bounded) counterpart of the Verus contracts of unit
// `speech` (C02, C01): 3 frames, fperiod 2, every history "k steps with arbitrary buffer sizes, then
// finish".  The vocoder is stubbed by a deterministic function of (frames rendered so far, lf0) that
// writes exactly fperiod samples - i.e. the abstract vocoder contract of the Verus unit.
//@harness name=history_steps_then_finish tier=quick label=bounded(3-frames,fperiod=2,buffer<=6) props=C02,C01 timeout=900
use super::*;

static mut RENDERED: usize = 0;

fn stub_synthesize(_v: &mut Vocoder, lf0: f64, _spectrum: &[f64], _lpf: &[f64], rawdata: &mut [f64]) {
    unsafe {
        RENDERED += 1;
        rawdata[0] = lf0;
        rawdata[1] = (RENDERED * 100) as f64;
    }
}

#[kani::proof]
#[kani::unwind(8)]
#[kani::stub(Vocoder::synthesize, stub_synthesize)]
fn history_steps_then_finish() {
    let l: [f64; 3] = kani::any();
    kani::assume(!l[0].is_nan() && !l[1].is_nan() && !l[2].is_nan());
    let vocoder = Vocoder::new(2, 0, 0, false, 48000, 0.5, 0.0, 1.0, 2);
    let mut g = SpeechGenerator::new(
        2,
        vocoder,
        vec![vec![0.0, 0.0], vec![0.0, 0.0], vec![0.0, 0.0]],
        vec![vec![l[0]], vec![l[1]], vec![l[2]]],
        vec![vec![], vec![], vec![]],
    );
    assert!(g.fperiod() == 2 && g.synthesized_frames() == 0);
    // the one-shot waveform this generator must produce
    let want = [l[0], 100.0, l[1], 200.0, l[2], 300.0];
    let k: usize = kani::any();
    kani::assume(k <= 4);
    let mut out = [0.0f64; 6];
    let mut produced = 0;
    let mut i = 0;
    while i < 4 {
        if i < k {
            let n: usize = kani::any();
            kani::assume(n >= 2 && n <= 6);
            let mut buf = [7.0f64; 6];
            let r = g.generate_step(&mut buf[..n]);
            if produced < 3 {
                assert!(r == 2);
                out[2 * produced] = buf[0];
                out[2 * produced + 1] = buf[1];
                // nothing beyond one frame is written
                assert!(buf[2] == 7.0 && buf[3] == 7.0 && buf[4] == 7.0 && buf[5] == 7.0);
                produced += 1;
            } else {
                // exhausted: returns 0 and writes nothing
                assert!(r == 0);
                assert!(buf[0] == 7.0 && buf[1] == 7.0);
            }
            assert!(g.synthesized_frames() == produced);
        }
        i += 1;
    }
    let rest = g.generate_all();
    assert!(rest.len() == 2 * (3 - produced));
    let mut j = 0;
    while j < 6 {
        let v = if j < 2 * produced { out[j] } else { rest[j - 2 * produced] };
        assert!(v == want[j]);
        j += 1;
    }
    kani::cover!(k == 2);
    kani::cover!(k == 4);
}
