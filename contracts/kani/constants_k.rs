//@attach src/constants.rs
// K-const: the numeric constants the properties name (ground facts, decided by constant folding: complete).
// C16: DB is ln(10)/20, so that set_volume(v) is the amplitude gain 10^(v/20) (not the power law 10^(v/10));
// C15: HALF_TONE is ln(2)/12; C07: the pitch clamp is [ln 20, ln 20000] (20 Hz .. 20 kHz); C05 / C11: the no-data
// marker is -1e10.  ln(10) and ln(2) are core's correctly rounded constants; ln 20 and ln 20000 are compared with
// ln 10 + ln 2 and 4 ln 10 + ln 2 to within 2 ulp of the sum.
// One harness per constant, so that a changed constant is reported under the property that names it only.
//@harness name=db_is_ln10_over_20 tier=quick label=proved props=C16 timeout=600
//@harness name=half_tone_is_ln2_over_12 tier=quick label=proved props=C15 timeout=600
//@harness name=lf0_limits_are_20hz_and_20khz tier=quick label=proved props=C07 timeout=600
//@harness name=nodata_marker_is_minus_1e10 tier=quick label=proved props=C11,C05 timeout=600
use super::*;
use std::f64::consts::{LN_10, LN_2};

// the literals in the source are decimal renderings: within 2 ulp of the quotient, not bit-equal to it
#[kani::proof]
fn db_is_ln10_over_20() { assert!((DB - LN_10 / 20.0).abs() <= 3.0e-17); kani::cover!(true); }
#[kani::proof]
fn half_tone_is_ln2_over_12() { assert!((HALF_TONE - LN_2 / 12.0).abs() <= 1.5e-17); kani::cover!(true); }
#[kani::proof]
fn lf0_limits_are_20hz_and_20khz() {
    assert!((MIN_LF0 - (LN_10 + LN_2)).abs() <= 1.0e-15);
    assert!((MAX_LF0 - (4.0 * LN_10 + LN_2)).abs() <= 4.0e-15);
    kani::cover!(true);
}
#[kani::proof]
fn nodata_marker_is_minus_1e10() { assert!(NODATA == -1.0e10); kani::cover!(true); }
