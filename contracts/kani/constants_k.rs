//@attach src/constants.rs
// K-const: the numeric constants the properties name (ground facts, decided by constant folding: complete).
// C16: DB is ln(10)/20, so that set_volume(v) is the amplitude gain 10^(v/20) (not the power law 10^(v/10));
// C15: HALF_TONE is ln(2)/12; C07: the pitch clamp is [ln 20, ln 20000] (20 Hz .. 20 kHz); C05 / C11: the no-data
// marker is -1e10.  ln(10) and ln(2) are core's correctly rounded constants; ln 20 and ln 20000 are compared with
// ln 10 + ln 2 and 4 ln 10 + ln 2 to within 2 ulp of the sum.
//@harness name=constants_are_the_documented_values tier=quick label=proved props=C16,C15,C07,C11 timeout=600
use super::*;

#[kani::proof]
fn constants_are_the_documented_values() {
    use std::f64::consts::{LN_10, LN_2};
    // the literals in the source are decimal renderings: within 2 ulp of the quotient, not bit-equal to it
    assert!((DB - LN_10 / 20.0).abs() <= 3.0e-17);
    assert!((HALF_TONE - LN_2 / 12.0).abs() <= 1.5e-17);
    assert!((MIN_LF0 - (LN_10 + LN_2)).abs() <= 1.0e-15);
    assert!((MAX_LF0 - (4.0 * LN_10 + LN_2)).abs() <= 4.0e-15);
    assert!(NODATA == -1.0e10);
    kani::cover!(true);
}
