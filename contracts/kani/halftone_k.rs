//@attach src/model/stream_parameter.rs
// K-ht: StreamParameter::apply_additional_half_tone (C15).
//@harness name=half_tone_zero_is_identity tier=quick label=bounded(states=2,windows=2) props=C15
//@harness name=half_tone_frame tier=quick label=bounded(states=2,windows=2) props=C15 timeout=600
//@harness name=half_tone_value tier=quick label=bounded(states=1,h-in-6-constants) props=C15 timeout=600
use super::*;
use crate::constants::{HALF_TONE, MAX_LF0, MIN_LF0};

fn any_stream() -> ([f64; 8], [f64; 2], StreamParameter) {
    let a: [f64; 8] = kani::any();
    let m: [f64; 2] = kani::any();
    let sp = StreamParameter::new(vec![
        (vec![MeanVari(a[0], a[1]), MeanVari(a[2], a[3])], m[0]),
        (vec![MeanVari(a[4], a[5]), MeanVari(a[6], a[7])], m[1]),
    ]);
    (a, m, sp)
}

fn unchanged_except_static_mean(a: &[f64; 8], m: &[f64; 2], sp: &StreamParameter) -> bool {
    sp.len() == 2 && sp[0].0.len() == 2 && sp[1].0.len() == 2
        && sp[0].0[0].1.to_bits() == a[1].to_bits()
        && sp[0].0[1].0.to_bits() == a[2].to_bits() && sp[0].0[1].1.to_bits() == a[3].to_bits()
        && sp[1].0[0].1.to_bits() == a[5].to_bits()
        && sp[1].0[1].0.to_bits() == a[6].to_bits() && sp[1].0[1].1.to_bits() == a[7].to_bits()
        && sp[0].1.to_bits() == m[0].to_bits() && sp[1].1.to_bits() == m[1].to_bits()
}

/// h = 0 is the identity (bitwise)
#[kani::proof]
#[kani::unwind(4)]
fn half_tone_zero_is_identity() {
    let (a, m, mut sp) = any_stream();
    sp.apply_additional_half_tone(0.0);
    assert!(unchanged_except_static_mean(&a, &m, &sp));
    assert!(sp[0].0[0].0.to_bits() == a[0].to_bits() && sp[1].0[0].0.to_bits() == a[4].to_bits());
    kani::cover!(true);
}

/// any h: variances, dynamic-feature means and voicing weights of every state are untouched
#[kani::proof]
#[kani::unwind(4)]
fn half_tone_frame() {
    let (a, m, mut sp) = any_stream();
    let h: f64 = kani::any();
    sp.apply_additional_half_tone(h);
    assert!(unchanged_except_static_mean(&a, &m, &sp));
    kani::cover!(h > 1.0);
}

fn half_tone_value_for(h: f64) {
    let a: [f64; 2] = kani::any();
    let mut sp = StreamParameter::new(vec![(vec![MeanVari(a[0], a[1])], 0.0)]);
    kani::assume(!a[0].is_nan());
    sp.apply_additional_half_tone(h);
    let y = a[0] + h * HALF_TONE;
    let want = if y < MIN_LF0 { MIN_LF0 } else if y > MAX_LF0 { MAX_LF0 } else { y };
    assert!(sp[0].0[0].0 == want);
    assert!(sp[0].0[0].1.to_bits() == a[1].to_bits());
}
/// h != 0 adds h*ln2/12 to the static log-F0 mean, limited to [ln 20, ln 20000]; h is a constant in every
/// call (CBMC cannot show two copies of a symbolic multiplication equal, P9), the mean is fully symbolic;
/// the state's voicing weight is 0 (an unvoiced state is transposed like any other)
#[kani::proof]
#[kani::unwind(3)]
fn half_tone_value() {
    half_tone_value_for(1.0);
    half_tone_value_for(-1.0);
    half_tone_value_for(12.0);
    half_tone_value_for(-24.0);
    half_tone_value_for(24.0);
    half_tone_value_for(0.5);
    kani::cover!(true);
}
