//@attach src/engine.rs
// K-cond: contracts on Condition's setters/getters (C20, C16-a, C14/C08 plumbing).
// Native Kani contracts are attached to the real functions by the overlay (the //@contract
// blocks below); each is proved by a proof_for_contract harness over the full symbolic domain
// (loop-free => complete, not bounded).  `modifies` is the frame: writing any other field fails
// the "is assignable" check.
//
//@contract src/engine.rs :: impl Condition :: fn set_alpha
//@  #[kani::requires(!f.is_nan())]
//@  #[kani::ensures(|_| self.alpha.to_bits() == (if f < 0.0 { 0.0f64 } else if f > 1.0 { 1.0 } else { f }).to_bits() || (f == 0.0 && self.alpha == 0.0))]
//@  #[kani::modifies(&self.alpha)]
//@contract src/engine.rs :: impl Condition :: fn set_beta
//@  #[kani::requires(!f.is_nan())]
//@  #[kani::ensures(|_| self.beta.to_bits() == (if f < 0.0 { 0.0f64 } else if f > 1.0 { 1.0 } else { f }).to_bits() || (f == 0.0 && self.beta == 0.0))]
//@  #[kani::modifies(&self.beta)]
//@contract src/engine.rs :: impl Condition :: fn set_speed
//@  #[kani::requires(!f.is_nan())]
//@  #[kani::ensures(|_| self.speed.to_bits() == (if f < 1.0e-6 { 1.0e-6f64 } else { f }).to_bits())]
//@  #[kani::modifies(&self.speed)]
//@contract src/engine.rs :: impl Condition :: fn set_additional_half_tone
//@  #[kani::ensures(|_| self.additional_half_tone.to_bits() == f.to_bits())]
//@  #[kani::modifies(&self.additional_half_tone)]
//@contract src/engine.rs :: impl Condition :: fn set_phoneme_alignment_flag
//@  #[kani::ensures(|_| self.phoneme_alignment_flag == b)]
//@  #[kani::modifies(&self.phoneme_alignment_flag)]
//
//@harness name=pfc_set_alpha tier=quick label=proved props=C20
//@harness name=pfc_set_beta tier=quick label=proved props=C20,C14
//@harness name=pfc_set_speed tier=quick label=proved props=C20,C08
//@harness name=pfc_set_additional_half_tone tier=quick label=proved props=C20,C15
//@harness name=pfc_set_phoneme_alignment_flag tier=quick label=proved props=C20,C09
//@harness name=plain_set_sampling_frequency tier=quick label=proved props=C20
//@harness name=plain_set_fperiod tier=quick label=proved props=C20
//@harness name=getters_return_stored tier=quick label=proved props=C20
//@harness name=set_msd_threshold_frame tier=quick label=bounded(len=3) props=C20,C11
//@harness name=set_gv_weight_frame tier=quick label=bounded(len=3) props=C20,C12
//@harness name=default_condition tier=quick label=proved props=C20
//@harness name=set_volume_frame tier=quick label=proved props=C16,C20
use super::*;

fn any_condition() -> Condition {
    let mut c = Condition::default();
    c.sampling_frequency = kani::any();
    c.fperiod = kani::any();
    c.volume = kani::any();
    c.phoneme_alignment_flag = kani::any();
    c.speed = kani::any();
    c.stage = kani::any();
    c.use_log_gain = kani::any();
    c.alpha = kani::any();
    c.beta = kani::any();
    c.additional_half_tone = kani::any();
    c
}

/// a vector of the given concrete length with symbolic contents (symbolic lengths are
/// unaffordable under CBMC: 260 s for a 4-element push loop; the length-generic frame is the
/// Verus unit `cond`)
fn any_vec3() -> Vec<f64> {
    let a: [f64; 3] = kani::any();
    vec![a[0], a[1], a[2]]
}

fn same_bits(a: &[f64], b: &[f64]) -> bool {
    a.len() == 3 && b.len() == 3
        && a[0].to_bits() == b[0].to_bits()
        && a[1].to_bits() == b[1].to_bits()
        && a[2].to_bits() == b[2].to_bits()
}

/// every scalar field except those listed in `skip` is bit-identical
fn scalars_unchanged(a: &Condition, b: &Condition, skip: &str) -> bool {
    (skip == "sampling_frequency" || a.sampling_frequency == b.sampling_frequency)
        && (skip == "fperiod" || a.fperiod == b.fperiod)
        && (skip == "volume" || a.volume.to_bits() == b.volume.to_bits())
        && (skip == "phoneme_alignment_flag" || a.phoneme_alignment_flag == b.phoneme_alignment_flag)
        && (skip == "speed" || a.speed.to_bits() == b.speed.to_bits())
        && a.stage == b.stage
        && a.use_log_gain == b.use_log_gain
        && (skip == "alpha" || a.alpha.to_bits() == b.alpha.to_bits())
        && (skip == "beta" || a.beta.to_bits() == b.beta.to_bits())
        && (skip == "additional_half_tone" || a.additional_half_tone.to_bits() == b.additional_half_tone.to_bits())
}

#[kani::proof_for_contract(Condition::set_alpha)]
fn pfc_set_alpha() {
    let mut c = any_condition();
    c.set_alpha(kani::any());
}
#[kani::proof_for_contract(Condition::set_beta)]
fn pfc_set_beta() {
    let mut c = any_condition();
    c.set_beta(kani::any());
}
#[kani::proof_for_contract(Condition::set_speed)]
fn pfc_set_speed() {
    let mut c = any_condition();
    c.set_speed(kani::any());
}
#[kani::proof_for_contract(Condition::set_additional_half_tone)]
fn pfc_set_additional_half_tone() {
    let mut c = any_condition();
    c.set_additional_half_tone(kani::any());
}
#[kani::proof_for_contract(Condition::set_phoneme_alignment_flag)]
fn pfc_set_phoneme_alignment_flag() {
    let mut c = any_condition();
    c.set_phoneme_alignment_flag(kani::any());
}
// The two usize setters use the clone-and-compare encoding: the native `modifies` encoding of
// the same contract took 76 s in CBMC against 4 s for this one.
#[kani::proof]
fn plain_set_sampling_frequency() {
    let mut c = any_condition();
    let before = c.clone();
    let i: usize = kani::any();
    c.set_sampling_frequency(i);
    assert!(c.sampling_frequency == if i < 1 { 1 } else { i });
    assert!(c.get_sampling_frequency() == c.sampling_frequency);
    assert!(scalars_unchanged(&c, &before, "sampling_frequency"));
    kani::cover!(i == 0);
}
#[kani::proof]
fn plain_set_fperiod() {
    let mut c = any_condition();
    let before = c.clone();
    let i: usize = kani::any();
    c.set_fperiod(i);
    assert!(c.fperiod == if i < 1 { 1 } else { i });
    assert!(c.get_fperiod() == c.fperiod);
    assert!(scalars_unchanged(&c, &before, "fperiod"));
    kani::cover!(i == 0);
}

/// the matching getter returns exactly the stored value (bitwise), and reads nothing else
#[kani::proof]
fn getters_return_stored() {
    let mut c = any_condition();
    c.msd_threshold = any_vec3();
    c.gv_weight = any_vec3();
    assert!(c.get_sampling_frequency() == c.sampling_frequency);
    assert!(c.get_fperiod() == c.fperiod);
    assert!(c.get_speed().to_bits() == c.speed.to_bits());
    assert!(c.get_alpha().to_bits() == c.alpha.to_bits());
    assert!(c.get_beta().to_bits() == c.beta.to_bits());
    assert!(c.get_additional_half_tone().to_bits() == c.additional_half_tone.to_bits());
    assert!(c.get_phoneme_alignment_flag() == c.phoneme_alignment_flag);
    let i: usize = kani::any();
    if i < c.msd_threshold.len() {
        assert!(c.get_msd_threshold(i).to_bits() == c.msd_threshold[i].to_bits());
    }
    if i < c.gv_weight.len() {
        assert!(c.get_gv_weight(i).to_bits() == c.gv_weight[i].to_bits());
    }
    kani::cover!(i < c.msd_threshold.len());
}

#[kani::proof]
fn set_msd_threshold_frame() {
    let mut c = any_condition();
    c.msd_threshold = any_vec3();
    c.gv_weight = any_vec3();
    let before = c.clone();
    let i: usize = kani::any();
    let f: f64 = kani::any();
    kani::assume(i < c.msd_threshold.len());
    kani::assume(!f.is_nan());
    c.set_msd_threshold(i, f);
    let want = if f < 0.0 { 0.0 } else if f > 1.0 { 1.0 } else { f };
    assert!(c.msd_threshold[i] == want);
    assert!(c.get_msd_threshold(i).to_bits() == c.msd_threshold[i].to_bits());
    assert!(c.msd_threshold.len() == before.msd_threshold.len());
    let j: usize = kani::any();
    kani::assume(j < c.msd_threshold.len() && j != i);
    assert!(c.msd_threshold[j].to_bits() == before.msd_threshold[j].to_bits());
    assert!(same_bits(&c.gv_weight, &before.gv_weight));
    assert!(scalars_unchanged(&c, &before, ""));
    kani::cover!(c.msd_threshold.len() == 3);
}

#[kani::proof]
fn set_gv_weight_frame() {
    let mut c = any_condition();
    c.msd_threshold = any_vec3();
    c.gv_weight = any_vec3();
    let before = c.clone();
    let i: usize = kani::any();
    let f: f64 = kani::any();
    kani::assume(i < c.gv_weight.len());
    kani::assume(!f.is_nan());
    c.set_gv_weight(i, f);
    let want = if f < 0.0 { 0.0 } else { f };
    assert!(c.gv_weight[i] == want);
    assert!(c.get_gv_weight(i).to_bits() == c.gv_weight[i].to_bits());
    assert!(c.gv_weight.len() == before.gv_weight.len());
    let j: usize = kani::any();
    kani::assume(j < c.gv_weight.len() && j != i);
    assert!(c.gv_weight[j].to_bits() == before.gv_weight[j].to_bits());
    assert!(same_bits(&c.msd_threshold, &before.msd_threshold));
    assert!(scalars_unchanged(&c, &before, ""));
    kani::cover!(c.gv_weight.len() == 3);
}

/// Condition::default(): 0 dB (linear gain 1.0), speed 1, beta 0, no pitch shift, alignment off.
#[kani::proof]
fn default_condition() {
    let c = Condition::default();
    assert!(c.volume == 1.0);
    assert!(c.speed == 1.0);
    assert!(c.beta == 0.0);
    assert!(c.additional_half_tone == 0.0);
    assert!(!c.phoneme_alignment_flag);
    assert!(c.get_speed() == 1.0 && c.get_beta() == 0.0 && c.get_additional_half_tone() == 0.0);
    assert!(!c.get_phoneme_alignment_flag());
    kani::cover!(true);
}

// libm is not modelled by CBMC (P3): exp is an uninterpreted function here (ASSUMED)
fn uf_exp(x: f64) -> f64 {
    let r: f64 = kani::any();
    kani::assume(r > 0.0 || x.is_nan());
    r
}

/// set_volume writes the volume field only (C16 "changes nothing else"); the value is exp(v*DB)
/// with exp left uninterpreted.
#[kani::proof]
#[kani::stub(f64::exp, uf_exp)]
fn set_volume_frame() {
    let mut c = any_condition();
    let before = c.clone();
    let v: f64 = kani::any();
    c.set_volume(v);
    assert!(scalars_unchanged(&c, &before, "volume"));
    kani::cover!(true);
}
