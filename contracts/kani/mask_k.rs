//@attach src/mlpg_adjust/mask.rs
// K-mask: Mask::create (voiced = msd > threshold, expanded by durations), Mask::fill,
// boundary_distances (C05, C11).  Structure (durations) is concrete, data symbolic (P19).
//@harness name=mask_create_d12 tier=quick label=bounded(durations=[1,2]) props=C11,C05 timeout=600
//@harness name=mask_create_d21 tier=quick label=bounded(durations=[2,1]) props=C11,C05 timeout=600
//@harness name=mask_threshold_monotone tier=quick label=proved props=C11
//@harness name=mask_fill_nodata tier=quick label=bounded(frames=3) props=C11,C05 timeout=600
//@harness name=boundary_distances_4 tier=quick label=bounded(frames=4) props=C05 timeout=600
use super::*;
use crate::model::MeanVari;

fn stream2(m0: f64, m1: f64) -> StreamParameter {
    StreamParameter::new(vec![(vec![MeanVari(0.0, 1.0)], m0), (vec![MeanVari(0.0, 1.0)], m1)])
}

fn check_create(d: [usize; 2]) {
    let m0: f64 = kani::any();
    let m1: f64 = kani::any();
    let th: f64 = kani::any();
    let s = stream2(m0, m1);
    let mask = Mask::create(&s, th, &d);
    let v = mask.mask();
    assert!(v.len() == d[0] + d[1]);
    let f: usize = kani::any();
    kani::assume(f < d[0] + d[1]);
    // frame f belongs to state 0 iff f < d[0]; voiced iff that state's weight is strictly above the threshold
    let want = if f < d[0] { m0 > th } else { m1 > th };
    assert!(v[f] == want);
    kani::cover!(v[0] && !v[d[0] + d[1] - 1]);
}

#[kani::proof]
#[kani::unwind(6)]
fn mask_create_d12() { check_create([1, 2]); }
#[kani::proof]
#[kani::unwind(6)]
fn mask_create_d21() { check_create([2, 1]); }

/// L5: raising the threshold can only turn a voiced state unvoiced
#[kani::proof]
fn mask_threshold_monotone() {
    let m: f64 = kani::any();
    let t1: f64 = kani::any();
    let t2: f64 = kani::any();
    kani::assume(t1 <= t2);
    if m > t2 { assert!(m > t1); }
    // non-MSD streams carry f64::MAX: voiced for every threshold in [0, 1]
    kani::assume(t2 >= 0.0 && t2 <= 1.0);
    assert!(f64::MAX > t2);
}

/// fill: unvoiced frames get the default (NODATA in MlpgAdjust::create), voiced frames the values in order
#[kani::proof]
#[kani::unwind(6)]
fn mask_fill_nodata() {
    let b: [bool; 3] = kani::any();
    let mask = Mask(vec![b[0], b[1], b[2]]);
    let vals: [f64; 3] = kani::any();
    let n = (b[0] as usize) + (b[1] as usize) + (b[2] as usize);
    let masked: Vec<f64> = vals[..n].to_vec();
    let def: f64 = kani::any();
    let out: Vec<f64> = mask.fill(masked, def).collect();
    assert!(out.len() == 3);
    let mut k = 0;
    let mut i = 0;
    while i < 3 {
        if b[i] { assert!(out[i].to_bits() == vals[k].to_bits()); k += 1; } else { assert!(out[i].to_bits() == def.to_bits()); }
        i += 1;
    }
    kani::cover!(n == 2);
}

/// boundary_distances on every mask of 4 frames: distance to the nearest unvoiced frame or edge
#[kani::proof]
#[kani::unwind(7)]
fn boundary_distances_4() {
    let b: [bool; 4] = kani::any();
    let mask = Mask(vec![b[0], b[1], b[2], b[3]]);
    let r = mask.boundary_distances();
    assert!(r.len() == 4);
    let f: usize = kani::any();
    kani::assume(f < 4);
    if !b[f] {
        assert!(r[f] == (0, 0));
    } else {
        // left: number of consecutive voiced frames immediately before f
        let mut l = 0; let mut i = f;
        while i > 0 && b[i - 1] { l += 1; i -= 1; }
        let mut rr = 0; let mut j = f;
        while j + 1 < 4 && b[j + 1] { rr += 1; j += 1; }
        assert!(r[f].0 == l);
        assert!(r[f].1 == rr);
    }
    kani::cover!(b[0] && b[1] && !b[2] && b[3]);
}
