//@attach src/duration.rs
// K-dur-mod: modular, API-level harnesses for DurationEstimator::{create, create_with_alignment} (C08, C09).
// The real callers run as they are; the callee estimate_duration_with_frame_length is replaced by its
// CONTRACT (`fit_post`, proved for every input by Verus unit duration): n states in, n durations out, each
// >= 1, all ones when the target does not exceed n, total == max(round(frame_length).max(1), n).  This is
// modular verification across the two back ends: Kani sees the callee only through the contract Verus
// discharged.  With the float-heavy greedy loop gone the callers cost seconds instead of 12 minutes, so
// these run in the quick tier and survive refactorings that make the Verus unit lose its anchors.
// Bounded: 3-4 labels, 1 state per label, end times <= 12 frames.
//@harness name=create_total_law_modular tier=thorough label=bounded(2-states,speed-in-[0.1,50],fit-by-contract) props=C08,C01 timeout=2400
//@harness name=create_dispatch_constant_speeds tier=quick label=bounded(3-states,speeds-1-2-0.5-16,symbolic-split,fit-by-contract) props=C08,C01 timeout=900
// harness (NOT REGISTERED: symbolic end times make the `end >= 0` branch symbolic, CBMC merges the vector states of both arms at every label and exceeds 12 GB in 2 minutes) name=align_known_ends_modular tier=quick label=bounded(3-labels,1-state,ends<=12,fit-by-contract) props=C09,C01 timeout=900
// harness (NOT REGISTERED: as above) name=align_inherited_and_unknown_modular tier=quick label=bounded(4-labels,1-state,ends<=12,fit-by-contract) props=C09,C01 timeout=900
//@harness name=align_trailing_modular tier=thorough label=bounded(3-labels,1-state,fit-by-contract) props=C09,C01 timeout=1800
//@harness name=align_bookkeeping_infeasible_then_feasible tier=quick label=bounded(4-labels,2-states,concrete-end-times,symbolic-split,fit-by-contract) props=C09,C01 timeout=900
//@harness name=align_bookkeeping_shared_group tier=quick label=bounded(4-labels,1-state,concrete-end-times,symbolic-split,fit-by-contract) props=C09,C01 timeout=900
use super::*;

/// `fit_post` as a Kani stub: any vector the contract allows (group sizes 0..3 occur in these harnesses)
fn fit_by_contract(duration_params: &[MeanVari], frame_length: f64) -> Vec<usize> {
    let n = duration_params.len();
    let target = frame_length.round().max(1.0) as usize;
    if target <= n {
        return vec![1; n];
    }
    if n == 0 {
        return vec![];
    }
    if n == 1 {
        return vec![target];
    }
    if n == 2 {
        let a: usize = kani::any();
        kani::assume(a >= 1 && a < target);
        return vec![a, target - a];
    }
    let a: usize = kani::any();
    let b: usize = kani::any();
    kani::assume(a >= 1 && b >= 1 && a < target && b < target - a);
    assert!(n == 3);
    vec![a, b, target - a - b]
}

fn frames(t: f64) -> usize { t.round().max(1.0) as usize }

/// C08: speed 1 -> round(mean).max(1) per state; any other speed -> total = max(round(F1 / s), states) with
/// every state >= 1, F1 the speed-1 total
#[kani::proof]
#[kani::unwind(5)]
#[kani::stub(DurationEstimator::estimate_duration_with_frame_length, fit_by_contract)]
fn create_total_law_modular() {
    let speed: f64 = kani::any();
    kani::assume(speed >= 0.1 && speed <= 50.0);
    let e = DurationEstimator::new(vec![MeanVari(3.0, 1.0), MeanVari(5.0, 4.0)], 1);
    let r = e.create(speed);
    assert!(r.len() == 2 && r[0] >= 1 && r[1] >= 1);
    if speed == 1.0 {
        assert!(r[0] == 3 && r[1] == 5);
    } else {
        let target = frames(8.0f64 / speed);
        assert!(r[0] + r[1] == if target > 2 { target } else { 2 });
    }
    kani::cover!(speed > 4.0);
    kani::cover!(speed < 1.0);
}

/// C09, every label has its end: frames up to and including label k == round(end_k) whenever that leaves the
/// label at least one frame, otherwise the label gets exactly one frame
#[kani::proof]
#[kani::unwind(5)]
#[kani::stub(DurationEstimator::estimate_duration_with_frame_length, fit_by_contract)]
fn align_known_ends_modular() {
    let e0: f64 = kani::any();
    let e1: f64 = kani::any();
    let e2: f64 = kani::any();
    kani::assume(e0 >= 0.0 && e0 <= 12.0 && e1 >= 0.0 && e1 <= 12.0 && e2 >= 0.0 && e2 <= 12.0);
    let e = DurationEstimator::new(vec![MeanVari(3.0, 1.0), MeanVari(5.0, 4.0), MeanVari(2.0, 1.0)], 1);
    let r = e.create_with_alignment(&[(0.0, e0), (e0, e1), (e1, e2)]);
    assert!(r.len() == 3 && r[0] >= 1 && r[1] >= 1 && r[2] >= 1);
    let c0 = r[0];
    assert!(c0 == frames(e0));
    let t1 = frames(e1 - c0 as f64);
    assert!(r[1] == t1);
    let c1 = c0 + r[1];
    if e1.round() >= (c0 + 1) as f64 { assert!(c1 as f64 == e1.round()); } else { assert!(r[1] == 1); }
    let t2 = frames(e2 - c1 as f64);
    assert!(r[2] == t2);
    if e2.round() >= (c1 + 1) as f64 { assert!((c1 + r[2]) as f64 == e2.round()); } else { assert!(r[2] == 1); }
    kani::cover!(r[1] == 1 && e2.round() >= (c1 + 1) as f64);   // an infeasible group followed by a feasible one
    kani::cover!(c0 == 4 && c1 == 9);
}

/// C09, labels 1 and 2 have no end of their own: they share the frames up to the end of label 3 with it
/// (one group of three states), every one of them keeps >= 1 frame
#[kani::proof]
#[kani::unwind(6)]
#[kani::stub(DurationEstimator::estimate_duration_with_frame_length, fit_by_contract)]
fn align_inherited_and_unknown_modular() {
    let e0: f64 = kani::any();
    let e3: f64 = kani::any();
    kani::assume(e0 >= 0.0 && e0 <= 12.0 && e3 >= 0.0 && e3 <= 12.0);
    let e = DurationEstimator::new(vec![MeanVari(3.0, 1.0), MeanVari(5.0, 4.0), MeanVari(2.0, 1.0), MeanVari(4.0, 2.0)], 1);
    let r = e.create_with_alignment(&[(0.0, e0), (e0, -1.0), (-1.0, -1.0), (-1.0, e3)]);
    assert!(r.len() == 4 && r[0] >= 1 && r[1] >= 1 && r[2] >= 1 && r[3] >= 1);
    let c0 = r[0];
    assert!(c0 == frames(e0));
    let group = r[1] + r[2] + r[3];
    if e3.round() >= (c0 + 3) as f64 {
        assert!((c0 + group) as f64 == e3.round());
    } else {
        assert!(r[1] == 1 && r[2] == 1 && r[3] == 1);
    }
    kani::cover!(e3.round() >= (c0 + 3) as f64);
    kani::cover!(e3.round() < (c0 + 3) as f64);
}

/// C09: trailing labels without an end time fall back to their model durations (speed-1 estimate)
#[kani::proof]
#[kani::unwind(5)]
#[kani::stub(DurationEstimator::estimate_duration_with_frame_length, fit_by_contract)]
fn align_trailing_modular() {
    let e0: f64 = kani::any();
    kani::assume(e0 >= 0.0 && e0 <= 12.0);
    let e = DurationEstimator::new(vec![MeanVari(3.0, 1.0), MeanVari(5.0, 4.0), MeanVari(2.0, 1.0)], 1);
    let r = e.create_with_alignment(&[(0.0, e0), (e0, -1.0), (-1.0, -1.0)]);
    assert!(r.len() == 3);
    assert!(r[0] == frames(e0) && r[1] == 5 && r[2] == 2);
    kani::cover!(true);
}


/// C09 bookkeeping with CONCRETE end times (the known / unknown pattern and the targets are then concrete for
/// CBMC) and a SYMBOLIC split inside every group (whatever the fit returns within its contract): two states per
/// label; label 0 ends at 6.4, label 1 at 6.6 (infeasible: would leave 1 frame for 2 states -> one frame each),
/// label 2 at 15.5 (feasible again: the cumulative count must come back to round(15.5) = 16), label 3 at 20.0
#[kani::proof]
#[kani::unwind(10)]
#[kani::stub(DurationEstimator::estimate_duration_with_frame_length, fit_by_contract)]
fn align_bookkeeping_infeasible_then_feasible() {
    let p = vec![MeanVari(3.0, 1.0), MeanVari(5.0, 4.0), MeanVari(2.0, 1.0), MeanVari(4.0, 2.0),
                 MeanVari(3.0, 1.0), MeanVari(5.0, 4.0), MeanVari(2.0, 1.0), MeanVari(4.0, 2.0)];
    let e = DurationEstimator::new(p, 2);
    let r = e.create_with_alignment(&[(0.0, 6.4), (6.4, 6.6), (6.6, 15.5), (15.5, 20.0)]);
    assert!(r.len() == 8);
    let mut k = 0;
    while k < 8 { assert!(r[k] >= 1); k += 1; }
    assert!(r[0] + r[1] == 6);
    assert!(r[2] == 1 && r[3] == 1);
    assert!(r[0] + r[1] + r[2] + r[3] + r[4] + r[5] == 16);
    assert!(r[0] + r[1] + r[2] + r[3] + r[4] + r[5] + r[6] + r[7] == 20);
    kani::cover!(r[0] == 2 && r[4] == 3);
}

/// labels 1 and 2 carry no end: they share the frames up to the end of label 3 (one group of three states);
/// label 0 keeps round(4.5) = 5 frames
#[kani::proof]
#[kani::unwind(10)]
#[kani::stub(DurationEstimator::estimate_duration_with_frame_length, fit_by_contract)]
fn align_bookkeeping_shared_group() {
    let e = DurationEstimator::new(vec![MeanVari(3.0, 1.0), MeanVari(5.0, 4.0), MeanVari(2.0, 1.0), MeanVari(4.0, 2.0)], 1);
    let r = e.create_with_alignment(&[(0.0, 4.5), (4.5, -1.0), (-1.0, -1.0), (-1.0, 12.2)]);
    assert!(r.len() == 4 && r[0] == 5 && r[1] >= 1 && r[2] >= 1 && r[3] >= 1);
    assert!(r[0] + r[1] + r[2] + r[3] == 12);
    kani::cover!(r[1] == 2 && r[2] == 4);
}

/// C08 dispatch at constant speeds (a symbolic speed costs CBMC a symbolic division: thorough tier), symbolic
/// split inside the fit's contract: speed 1 -> the rounded means (floor 1 for the 0.3-frame state); speed 2 ->
/// total round(9/2) = 5 (4.5 rounds away from zero); speed 0.5 -> 18; speed 16 -> round(0.5625) = 1 < 3 states ->
/// one frame per state
#[kani::proof]
#[kani::unwind(6)]
#[kani::stub(DurationEstimator::estimate_duration_with_frame_length, fit_by_contract)]
fn create_dispatch_constant_speeds() {
    let e = DurationEstimator::new(vec![MeanVari(3.0, 1.0), MeanVari(5.0, 4.0), MeanVari(0.3, 0.01)], 3);
    let r1 = e.create(1.0);
    assert!(r1.len() == 3 && r1[0] == 3 && r1[1] == 5 && r1[2] == 1);
    let r2 = e.create(2.0);
    assert!(r2.len() == 3 && r2[0] >= 1 && r2[1] >= 1 && r2[2] >= 1 && r2[0] + r2[1] + r2[2] == 5);
    let r3 = e.create(0.5);
    assert!(r3.len() == 3 && r3[0] >= 1 && r3[1] >= 1 && r3[2] >= 1 && r3[0] + r3[1] + r3[2] == 18);
    let r4 = e.create(16.0);
    assert!(r4.len() == 3 && r4[0] == 1 && r4[1] == 1 && r4[2] == 1);
    // "at any other speed": a speed within a thousandth of 1 still rescales (801 frames at speed 1, round(801 / (1 + 2^-10)) = 800)
    let long = DurationEstimator::new(vec![MeanVari(300.0, 1.0), MeanVari(500.0, 4.0), MeanVari(0.3, 0.01)], 3);
    let l1 = long.create(1.0);
    assert!(l1.len() == 3 && l1[0] == 300 && l1[1] == 500 && l1[2] == 1);
    let l2 = long.create(1.0009765625);
    assert!(l2.len() == 3 && l2[0] >= 1 && l2[1] >= 1 && l2[2] >= 1 && l2[0] + l2[1] + l2[2] == 800);
    kani::cover!(r2[0] == 2);
}
