//@attach src/model/parser/header/de.rs
// K-de-text: the character-level helpers of the header deserializer on every ASCII input of up to 4 bytes
// (C04: header values are read as written: `0` / `1` are the booleans, a quoted string ends at the next quote, a
// bare string at the next delimiter; C18: none of the slicing panics).  Bounded (4 bytes, ASCII).
//@harness name=parse_bool_reads_zero_or_one tier=quick label=bounded(4-bytes,ascii) props=C04,C18 timeout=900
//@harness name=parse_string_quoted_and_bare tier=quick label=bounded(4-bytes,ascii) props=C04,C18 timeout=900
//@harness name=next_delimiter_classifies tier=quick label=bounded(4-bytes,ascii) props=C04,C18 timeout=900
use super::*;

fn ascii4(bytes: &[u8; 4], n: usize) -> &str {
    kani::assume(n <= 4);
    let mut i = 0;
    while i < 4 { kani::assume(bytes[i] < 128); i += 1; }
    unsafe { std::str::from_utf8_unchecked(&bytes[..n]) }
}

#[kani::proof]
#[kani::unwind(7)]
fn parse_bool_reads_zero_or_one() {
    let b: [u8; 4] = kani::any();
    let n: usize = kani::any();
    let s = ascii4(&b, n);
    let mut de = Deserializer::from_str(s);
    let r = de.parse_bool();
    match r {
        Ok(v) => { assert!(n >= 1 && (b[0] == b'0' || b[0] == b'1') && v == (b[0] == b'1')); assert!(de.input.len() == n - 1); }
        Err(_) => assert!(n == 0 || (b[0] != b'0' && b[0] != b'1')),
    }
    kani::cover!(n == 4 && b[0] == b'1');
}

#[kani::proof]
#[kani::unwind(7)]
fn parse_string_quoted_and_bare() {
    let b: [u8; 4] = kani::any();
    let n: usize = kani::any();
    let s = ascii4(&b, n);
    let mut de = Deserializer::from_str(s);
    de.context.enter(',');
    let r = de.parse_string();
    match r {
        Ok(t) => {
            if n >= 1 && b[0] == b'"' {
                // quoted: the text up to the next quote, which is consumed
                let len = t.len();
                assert!(len + 2 <= n && b[1 + len] == b'"');
                assert!(de.input.len() == n - len - 2);
                let mut k = 0;
                while k < 4 { if k < len { assert!(b[1 + k] != b'"'); } k += 1; }
            } else {
                // bare: the text up to (not including) the next delimiter, or everything
                let len = t.len();
                assert!(len <= n && de.input.len() == n - len);
                assert!(len == n || b[len] == b',');
                let mut k = 0;
                while k < 4 { if k < len { assert!(b[k] != b','); } k += 1; }
            }
        }
        Err(_) => assert!(n >= 1 && b[0] == b'"'),       // only an unterminated quote is an error
    }
    kani::cover!(n == 4 && b[0] == b'"' && b[3] == b'"');
    kani::cover!(n == 4 && b[2] == b',');
}

#[kani::proof]
#[kani::unwind(7)]
fn next_delimiter_classifies() {
    let b: [u8; 4] = kani::any();
    let n: usize = kani::any();
    let s = ascii4(&b, n);
    let mut de = Deserializer::from_str(s);
    assert!(de.next_delimiter().is_none());           // no delimiter context: syntax error
    de.context.enter('\n');
    de.context.enter(',');
    let r = de.next_delimiter();
    if n >= 1 && b[0] == b',' { assert!(r == Some(true) && de.input.len() == n - 1); }
    else if n == 0 || b[0] == b'\n' { assert!(r == Some(false) && de.input.len() == n); }
    else { assert!(r.is_none() && de.input.len() == n); }
    kani::cover!(n == 2 && b[0] == b',');
}
