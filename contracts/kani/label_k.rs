//@attach src/label.rs
// K-lbl: Labels::load_from_strings control flow on concrete lines that never reach the jlabel parser
// (C17): blank lines are skipped, two tokens without a label are an error value, no panic.
//@harness name=blank_lines_are_skipped tier=quick label=bounded(concrete-lines) props=C17 timeout=600
// harness (NOT REGISTERED: no answer in 15 minutes: str::splitn + to_string on a 37-byte line under CBMC; the path is covered through the string shim of label_body_k) name=two_times_without_label_is_an_error tier=quick label=bounded(concrete-lines,multibyte-text) props=C17 timeout=900
use super::*;

#[kani::proof]
#[kani::unwind(6)]
fn blank_lines_are_skipped() {
    let lines = ["", ""];
    let r = Labels::load_from_strings(48000, 240, &lines);
    match &r {
        Ok(l) => assert!(l.labels().is_empty() && l.times().is_empty()),
        Err(_) => assert!(false),
    }
    std::mem::forget(r);
}

/// two tokens and no label: the error value MissingLabel, whatever the text is (the check for the third token comes
/// before any number is parsed); a long line of multi-byte characters must not be cut inside a character
#[kani::proof]
#[kani::unwind(48)]
fn two_times_without_label_is_an_error() {
    let lines = ["", "0 5"];
    let r = Labels::load_from_strings(48000, 240, &lines);
    assert!(matches!(r, Err(LabelError::MissingLabel(_))));
    std::mem::forget(r);
    // 3 ASCII bytes followed by 17 two-byte characters (37 bytes)
    let long = ["0 5\u{e9}\u{e9}\u{e9}\u{e9}\u{e9}\u{e9}\u{e9}\u{e9}\u{e9}\u{e9}\u{e9}\u{e9}\u{e9}\u{e9}\u{e9}\u{e9}\u{e9}"];
    let r2 = Labels::load_from_strings(48000, 240, &long);
    assert!(matches!(r2, Err(LabelError::MissingLabel(_))));
    std::mem::forget(r2);
}
