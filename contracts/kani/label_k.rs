//@attach src/label.rs
// K-lbl: Labels::load_from_strings control flow on concrete lines that never reach the jlabel parser
// (C17): blank lines are skipped, two tokens without a label are an error value, no panic.
//@harness name=blank_lines_are_skipped tier=quick label=bounded(concrete-lines) props=C17 timeout=600
// harness (NOT REGISTERED: reaching the MissingLabel branch first parses two f64 tokens; dec2flt exhausts 12 GB under CBMC) name=two_times_without_label_is_an_error
use super::*;

#[kani::proof]
#[kani::unwind(6)]
fn blank_lines_are_skipped() {
    let lines = ["", ""];
    let r = Labels::load_from_strings(48000, 240, &lines);
    match &r {
        Ok(l) => assert!(l.labels().is_empty() && l.times().is_empty()),
        Err(_) => assert!(false),
    }
    std::mem::forget(r);
}

#[kani::proof]
#[kani::unwind(6)]
fn two_times_without_label_is_an_error() {
    let lines = ["", "0 5"];
    let r = Labels::load_from_strings(48000, 240, &lines);
    assert!(matches!(r, Err(LabelError::MissingLabel(_))));
    std::mem::forget(r);
}
