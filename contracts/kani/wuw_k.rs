//@attach src/mlpg_adjust/mlpg.rs
// K-wuw: MlpgMatrix::calc_wuw_and_wum against the DEFINITION of the normal equations (C05): with W the window
// matrix (row (i, s): the coefficients of window i centred on frame s, truncated at the utterance edges) and U^-1 the
// diagonal of precisions, the function must return the upper band of R = W'U^-1W (wuw[t][j] = R[t][t+j]) and
// r = W'U^-1 mu (wum).  The real function (custom reverse window iterators: outside Verus) runs on 4 frames with
// static, delta (-0.5, 0, 0.5) and delta-delta (1, -2, 1) windows and dyadic means / precisions, so every
// intermediate is exact; the expected band was computed from the definition over the rationals
// (R = sum_rows row' * ivar * row).  Bounded (4 frames, 3 windows, concrete values).
// Domain: dynamic-window rows that are truncated by an edge carry ZERO precision, which is all MlpgAdjust::create ever
// produces (C05: such observations are ignored).  Outside that domain the function is not the definition: its inner
// loop runs over the window coefficients in reverse and `break`s at the first out-of-range column, which also drops
// the in-range columns that would follow; with zero precision nothing is lost.  (Noted in DESIGN 10.5.)
//@harness name=wuw_wum_is_the_band_of_the_normal_equations tier=quick label=bounded(4-frames,3-windows,concrete-exact-values) props=C05 timeout=900
use super::*;
use crate::model::voice::window::Window;

#[kani::proof]
#[kani::unwind(8)]
fn wuw_wum_is_the_band_of_the_normal_equations() {
    let windows = Windows::new(vec![Window::new(vec![1.0]), Window::new(vec![-0.5, 0.0, 0.5]), Window::new(vec![1.0, -2.0, 1.0])]);
    // parameters[window][frame] = (mean, precision)
    let parameters = vec![
        vec![MeanVari(1.0, 0.5), MeanVari(2.0, 0.5), MeanVari(3.0, 0.5), MeanVari(4.0, 0.5)],
        // dynamic windows: zero precision on the frames whose window span crosses an edge, as MlpgAdjust::create gives them
        vec![MeanVari(0.25, 0.0), MeanVari(0.5, 2.0), MeanVari(0.75, 2.0), MeanVari(1.0, 0.0)],
        vec![MeanVari(-0.5, 0.0), MeanVari(-1.0, 0.5), MeanVari(-1.5, 0.75), MeanVari(-2.0, 0.0)],
    ];
    let m = MlpgMatrix::calc_wuw_and_wum(&windows, parameters);
    assert!(m.length == 4 && m.width == 3 && m.win_size == 3 && m.wuw.len() == 4 && m.wum.len() == 4);
    assert!(m.wuw[0][0] == 1.5 && m.wuw[0][1] == -1.0 && m.wuw[0][2] == 0.0);
    assert!(m.wuw[1][0] == 3.75 && m.wuw[1][1] == -2.5 && m.wuw[1][2] == 0.25);
    assert!(m.wuw[2][0] == 4.5 && m.wuw[2][1] == -1.5 && m.wuw[2][2] == 0.0);
    assert!(m.wuw[3][0] == 1.75 && m.wuw[3][1] == 0.0 && m.wuw[3][2] == 0.0);
    assert!(m.wum[0] == -0.5 && m.wum[1] == 0.125 && m.wum[2] == 3.75 && m.wum[3] == 1.625);
    kani::cover!(true);
    std::mem::forget(m);
    std::mem::forget(windows);
}
