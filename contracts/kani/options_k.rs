//@attach src/engine.rs
// K-opts: the option loop of Condition::load_model (statement hole `options` of Verus unit cond),
// pasted verbatim into a wrapper and run on concrete option strings (C20, C04).
//@harness name=options_gamma_lngain tier=quick label=bounded(concrete-strings) props=C20,C04 timeout=600
//@harness name=options_bad_lngain_is_error tier=quick label=bounded(concrete-strings) props=C20,C04 timeout=600
//@harness name=options_unknown_skipped tier=quick label=bounded(concrete-strings) props=C20,C04 timeout=600
use super::*;

struct ShimMeta { option: Vec<String> }
struct ShimVoices { m: ShimMeta }
impl ShimVoices { fn stream_metadata(&self, _i: usize) -> &ShimMeta { &self.m } }

impl Condition {
    fn verif_option_loop(&mut self, voices: &ShimVoices) -> Result<(), EngineError> {
        /*@HOLE options@*/
        Ok(())
    }
}

fn any_condition() -> Condition {
    let mut c = Condition::default();
    c.sampling_frequency = kani::any();
    c.fperiod = kani::any();
    c.volume = kani::any();
    c.phoneme_alignment_flag = kani::any();
    c.speed = kani::any();
    c.stage = kani::any();
    c.use_log_gain = kani::any();
    c.alpha = kani::any();
    c.beta = kani::any();
    c.additional_half_tone = kani::any();
    c
}
fn frame_ok(a: &Condition, b: &Condition) -> bool {
    a.sampling_frequency == b.sampling_frequency && a.fperiod == b.fperiod
        && a.volume.to_bits() == b.volume.to_bits() && a.phoneme_alignment_flag == b.phoneme_alignment_flag
        && a.speed.to_bits() == b.speed.to_bits() && a.beta.to_bits() == b.beta.to_bits()
        && a.additional_half_tone.to_bits() == b.additional_half_tone.to_bits()
        && a.msd_threshold.len() == b.msd_threshold.len() && a.gv_weight.len() == b.gv_weight.len()
}

#[kani::proof]
#[kani::unwind(10)]
fn options_gamma_lngain() {
    let mut c = any_condition();
    let before = c.clone();
    let v = ShimVoices { m: ShimMeta { option: vec!["GAMMA=3".to_string(), "LN_GAIN=1".to_string()] } };
    let r = c.verif_option_loop(&v);
    assert!(r.is_ok());
    assert!(c.stage == 3 && c.use_log_gain);
    assert!(c.alpha.to_bits() == before.alpha.to_bits());
    assert!(frame_ok(&before, &c));
    std::mem::forget(v);
    std::mem::forget(r);
}

#[kani::proof]
#[kani::unwind(10)]
fn options_bad_lngain_is_error() {
    let mut c = any_condition();
    let before = c.clone();
    let v = ShimVoices { m: ShimMeta { option: vec!["LN_GAIN=2".to_string()] } };
    let r = c.verif_option_loop(&v);
    assert!(matches!(r, Err(EngineError::ParseOptionError(_))));
    assert!(frame_ok(&before, &c));
    assert!(c.stage == before.stage && c.use_log_gain == before.use_log_gain);
    std::mem::forget(v);
    std::mem::forget(r);
}

#[kani::proof]
#[kani::unwind(10)]
fn options_unknown_skipped() {
    let mut c = any_condition();
    let before = c.clone();
    let v = ShimVoices { m: ShimMeta { option: vec!["COMMENT".to_string(), "X=1".to_string(), "LN_GAIN=0".to_string()] } };
    let r = c.verif_option_loop(&v);
    assert!(r.is_ok());
    assert!(!c.use_log_gain && c.stage == before.stage && c.alpha.to_bits() == before.alpha.to_bits());
    assert!(frame_ok(&before, &c));
    std::mem::forget(v);
    std::mem::forget(r);
}
