//@attach src/vocoder/mglsa.rs
// K-mglsa: the real MGLSA filter on an impulse, without frequency warping (alpha = 0), against the direct-form
// definition of the all-pole section it implements: y[n] = x[n] - sum_{k>=1} c_k y[n-k], i.e. 1 / (1 + sum c_k z^-k)
// per section, sections in cascade (C13: "s cascaded all-pole sections").  Dyadic coefficients keep everything exact;
// expected responses were computed over the rationals.  The anchor-independent, bit-precise counterpart of Verus unit
// mglsa for alpha = 0 (the warped case is only in the Verus unit).  Bounded (order 2, 5 samples, 1 and 2 sections).
//@harness name=mglsa_impulse_response_is_the_all_pole_cascade tier=quick label=bounded(order-2,5-samples,1-2-sections,alpha=0,concrete-exact-values) props=C13 timeout=900
use super::*;

#[kani::proof]
#[kani::unwind(8)]
fn mglsa_impulse_response_is_the_all_pole_cascade() {
    let c = GeneralizedCoefficients::new(&[9.0, 0.5, -0.25], -1.0);     // c_0 (the gain) is not used by the filter
    let want1 = [1.0, -0.5, 0.5, -0.375, 0.3125];
    let want2 = [1.0, -1.0, 1.25, -1.25, 1.25];
    let mut f1 = MelGeneralizedLogSpectrumApproximation::new(1, 3);
    let mut f2 = MelGeneralizedLogSpectrumApproximation::new(2, 3);
    let mut n = 0;
    while n < 5 {
        let mut x = if n == 0 { 1.0 } else { 0.0 };
        f1.df(&mut x, 0.0, &c);
        assert!(x == want1[n]);
        let mut y = if n == 0 { 1.0 } else { 0.0 };
        f2.df(&mut y, 0.0, &c);
        assert!(y == want2[n]);
        n += 1;
    }
    kani::cover!(true);
}
