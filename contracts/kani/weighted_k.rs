//@attach src/model/voice_set.rs
// K-weighted: the fold of VoiceSet::weighted (C10: voice v is combined with weight v, in order, whatever
// the sign of the weight).  Calling the real function needs two Arc<Voice>, whose construction and drop
// glue exhaust 12 GB under CBMC (see voice_set_k).  The harnesses therefore run the REAL BODY of
// VoiceSet::weighted, cut from the tree under check on every run (the BODY placeholder below), with a shim receiver:
// a slice of Arc<ShimVoice> holding just a ModelParameter.  What the shim drops: the fields of Voice the
// body never touches (it only hands each element to `param`).  Weights, ModelParameter::mul and
// ModelParameter::mul_add_assign are the real ones.  Labelled bounded (2 and 3 voices).
//@harness name=weighted_body_pairs_in_order tier=quick label=bounded(2-voices,vector=1,concrete-values) props=C10 timeout=900
//@harness name=weighted_body_unit_weight_is_no_vertex tier=quick label=bounded(3-voices,vector=1,concrete-values) props=C10 timeout=900
//@harness name=weighted_body_three_voices tier=thorough label=bounded(3-voices,vector=1,concrete-values) props=C10 timeout=1800
use super::*;
use crate::model::MeanVari;

struct ShimVoice { p: ModelParameter }
struct ShimSet(Vec<Arc<ShimVoice>>);
impl Deref for ShimSet {
    type Target = [Arc<ShimVoice>];
    fn deref(&self) -> &Self::Target { &self.0 }
}
impl ShimSet {
    fn weighted<F: Fn(&Arc<ShimVoice>) -> &ModelParameter>(&self, weights: &Weights, param: F) -> ModelParameter
    /*@BODY src/model/voice_set.rs :: impl VoiceSet :: fn weighted@*/
}
fn sel(v: &Arc<ShimVoice>) -> &ModelParameter { &v.p }
fn par(m: f64, v: f64, s: f64) -> Arc<ShimVoice> {
    Arc::new(ShimVoice { p: ModelParameter { parameters: vec![MeanVari(m, v)], msd: Some(s) } })
}

#[kani::proof]
#[kani::unwind(4)]
fn weighted_body_pairs_in_order() {
    let vs = ShimSet(vec![par(3.0, 1.0, 0.5), par(5.0, 2.0, 0.25)]);
    // extrapolation: a negative weight contributes with its sign
    let w = Weights::new(&[1.5, -0.5]).unwrap();
    let r = vs.weighted(&w, sel);
    assert!(r.parameters.len() == 1);
    assert!(r.parameters[0].0 == 3.0 * 1.5 + -0.5 * 5.0 && r.parameters[0].1 == 1.0 * 1.5 + -0.5 * 2.0);
    assert!(r.msd == Some(1.5 * 0.5 + -0.5 * 0.25));
    // a vertex weight reproduces that voice's statistics
    let w2 = Weights::new(&[0.0, 1.0]).unwrap();
    let r2 = vs.weighted(&w2, sel);
    assert!(r2.parameters[0].0 == 5.0 && r2.parameters[0].1 == 2.0 && r2.msd == Some(0.25));
    // a single voice: the fold has no further term; the result is that voice times its weight
    let one = ShimSet(vec![par(3.0, 1.0, 0.5)]);
    let w1 = Weights::new(&[1.0]).unwrap();
    let r1 = one.weighted(&w1, sel);
    assert!(r1.parameters.len() == 1 && r1.parameters[0].0 == 3.0 && r1.parameters[0].1 == 1.0 && r1.msd == Some(0.5));
    kani::cover!(true);
    std::mem::forget(vs);
    std::mem::forget(one);
}

#[kani::proof]
#[kani::unwind(5)]
fn weighted_body_three_voices() {
    let vs = ShimSet(vec![par(1.0, 1.0, 1.0), par(10.0, 2.0, 0.5), par(100.0, 4.0, 0.25)]);
    let w = Weights::new(&[0.5, 0.25, 0.25]).unwrap();
    let r = vs.weighted(&w, sel);
    assert!(r.parameters[0].0 == 0.5 + 2.5 + 25.0 && r.parameters[0].1 == 0.5 + 0.5 + 1.0);
    assert!(r.msd == Some(0.5 + 0.125 + 0.0625));
    let w2 = Weights::new(&[0.0, 0.0, 1.0]).unwrap();
    let r2 = vs.weighted(&w2, sel);
    assert!(r2.parameters[0].0 == 100.0 && r2.parameters[0].1 == 4.0 && r2.msd == Some(0.25));
    kani::cover!(true);
    std::mem::forget(vs);
}

/// a weight of exactly 1 (or 0) does not make the vector a vertex: with three voices and weights (1, .5, -.5),
/// (.5, 1, -.5) and (0, 2, -1) - all summing to 1 - every voice still contributes with its own weight
#[kani::proof]
#[kani::unwind(5)]
fn weighted_body_unit_weight_is_no_vertex() {
    let vs = ShimSet(vec![par(1.0, 1.0, 1.0), par(10.0, 2.0, 0.5), par(100.0, 4.0, 0.25)]);
    let w = Weights::new(&[1.0, 0.5, -0.5]).unwrap();
    let r = vs.weighted(&w, sel);
    assert!(r.parameters.len() == 1);
    assert!(r.parameters[0].0 == 1.0 + 5.0 - 50.0 && r.parameters[0].1 == 1.0 + 1.0 - 2.0);
    assert!(r.msd == Some(1.0 + 0.25 - 0.125));
    let w2 = Weights::new(&[0.5, 1.0, -0.5]).unwrap();
    let r2 = vs.weighted(&w2, sel);
    assert!(r2.parameters[0].0 == 0.5 + 10.0 - 50.0 && r2.parameters[0].1 == 0.5 + 2.0 - 2.0);
    assert!(r2.msd == Some(0.5 + 0.5 - 0.125));
    let w3 = Weights::new(&[0.0, 2.0, -1.0]).unwrap();
    let r3 = vs.weighted(&w3, sel);
    assert!(r3.parameters[0].0 == 20.0 - 100.0 && r3.parameters[0].1 == 4.0 - 4.0);
    assert!(r3.msd == Some(1.0 - 0.25));
    kani::cover!(true);
    std::mem::forget(vs);
}
