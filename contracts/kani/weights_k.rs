//@attach src/model/interporation_weight.rs
// K-wts: Weights::new (the contracted callee of Verus unit `weights`), Weights::average,
// InterporationWeight::new.  sum_ok(w) := |sum(w) - 1| <= f64::EPSILON (false for NaN).
//@harness name=weights_new_len1 tier=quick label=bounded(len=1) props=C19
//@harness name=weights_new_len2 tier=quick label=bounded(len=2) props=C19
//@harness name=weights_new_len3 tier=quick label=bounded(len=3) props=C19 timeout=1500
//@harness name=weights_new_len0 tier=quick label=proved props=C19
//@harness name=weights_average tier=quick label=bounded(n<=4) props=C19 timeout=1500
//@harness name=iw_new_shapes tier=quick label=bounded(2x3) props=C19,C20
//@harness name=iw_rejected_update_keeps_weights tier=quick label=bounded(2-voices,2-streams,len-1-and-3) props=C19 timeout=600
//@harness name=iw_accepted_update_only_that_vector tier=quick label=bounded(2-voices,2-streams) props=C19 timeout=600
use super::*;

fn check_new(w: &[f64], sum: f64) {
    let r = Weights::new(w);
    let ok = (sum - 1.0).abs() <= f64::EPSILON;
    match r {
        Ok(ws) => {
            assert!(ok);
            assert!(ws.weights.len() == w.len());
            let i: usize = kani::any();
            kani::assume(i < w.len());
            assert!(ws.weights[i].to_bits() == w[i].to_bits());
        }
        Err(WeightError::InvalidSum) => assert!(!ok),
        Err(_) => assert!(false),
    }
}

#[kani::proof]
#[kani::unwind(3)]
fn weights_new_len0() {
    let w: [f64; 0] = [];
    assert!(Weights::new(&w).is_err());
}
#[kani::proof]
#[kani::unwind(4)]
fn weights_new_len1() {
    let w: [f64; 1] = kani::any();
    check_new(&w, w[0]);
    kani::cover!(Weights::new(&w).is_ok());
}
#[kani::proof]
#[kani::unwind(5)]
fn weights_new_len2() {
    let w: [f64; 2] = kani::any();
    check_new(&w, w[0] + w[1]);
    kani::cover!(Weights::new(&w).is_ok());
}
#[kani::proof]
#[kani::unwind(6)]
fn weights_new_len3() {
    let w: [f64; 3] = kani::any();
    check_new(&w, w[0] + w[1] + w[2]);
    kani::cover!(Weights::new(&w).is_ok());
}

/// concrete lengths 1..4 (a symbolic length makes the Vec symbolic-length: minutes under CBMC)
fn average_is_uniform(n: usize) {
    let a = Weights::average(n);
    assert!(a.weights.len() == n);
    let i: usize = kani::any();
    kani::assume(i < n);
    assert!(a.weights[i] == 1.0 / n as f64);
    assert!(a.check_length(n).is_ok());
}
#[kani::proof]
#[kani::unwind(7)]
fn weights_average() {
    average_is_uniform(1);
    average_is_uniform(2);
    average_is_uniform(3);
    average_is_uniform(4);
    kani::cover!(true);
}

#[kani::proof]
#[kani::unwind(6)]
fn iw_new_shapes() {
    let iw = InterporationWeight::new(2, 3);
    assert!(iw.nvoices == 2);
    assert!(iw.parameter.len() == 3 && iw.gv.len() == 3);
    assert!(iw.duration.weights.len() == 2 && iw.duration.weights[0] == 0.5 && iw.duration.weights[1] == 0.5);
    let s: usize = kani::any();
    kani::assume(s < 3);
    assert!(iw.get_parameter(s).len() == 2 && iw.get_parameter(s)[1] == 0.5);
    assert!(iw.get_gv(s).len() == 2 && iw.get_gv(s)[0] == 0.5);
    assert!(iw.get_duration().len() == 2);
    kani::cover!(true);
}

fn bits_eq(a: &[f64], b: &[f64]) -> bool {
    a.len() == b.len() && (a.len() < 1 || a[0].to_bits() == b[0].to_bits()) && (a.len() < 2 || a[1].to_bits() == b[1].to_bits())
}

/// paired (API-level, refactoring-robust) form of the Verus contract of unit `weights`:
/// an update with the wrong number of weights is rejected whatever its values (even if they sum to 1)
/// and every previously effective weight vector stays in force
#[kani::proof]
#[kani::unwind(6)]
fn iw_rejected_update_keeps_weights() {
    let mut iw = InterporationWeight::new(2, 2);
    assert!(iw.set_duration(&[0.75, 0.25]).is_ok());
    assert!(iw.set_parameter(1, &[0.25, 0.75]).is_ok());
    assert!(iw.set_gv(0, &[1.0, 0.0]).is_ok());
    let w3: [f64; 3] = kani::any();
    let w1: [f64; 1] = kani::any();
    let which: u8 = kani::any();
    let long: bool = kani::any();
    let w: &[f64] = if long { &w3 } else { &w1 };
    let r = match which { 0 => iw.set_duration(w), 1 => iw.set_parameter(1, w), 2 => iw.set_parameter(0, w), 3 => iw.set_gv(0, w), _ => iw.set_gv(1, w) };
    assert!(r.is_err());
    assert!(bits_eq(iw.get_duration(), &[0.75, 0.25]));
    assert!(bits_eq(iw.get_parameter(1), &[0.25, 0.75]));
    assert!(bits_eq(iw.get_parameter(0), &[0.5, 0.5]));
    assert!(bits_eq(iw.get_gv(0), &[1.0, 0.0]));
    assert!(bits_eq(iw.get_gv(1), &[0.5, 0.5]));
    kani::cover!(long && which == 3);
}

/// an accepted update replaces exactly the addressed vector
#[kani::proof]
#[kani::unwind(6)]
fn iw_accepted_update_only_that_vector() {
    let mut iw = InterporationWeight::new(2, 2);
    let w: [f64; 2] = kani::any();
    let which: u8 = kani::any();
    kani::assume(which < 3);
    let r = match which { 0 => iw.set_duration(&w), 1 => iw.set_parameter(1, &w), _ => iw.set_gv(0, &w) };
    let ok = (w[0] + w[1] - 1.0).abs() <= f64::EPSILON;
    assert!(r.is_ok() == ok);
    let avg = [0.5, 0.5];
    assert!(bits_eq(iw.get_duration(), if ok && which == 0 { &w } else { &avg }));
    assert!(bits_eq(iw.get_parameter(1), if ok && which == 1 { &w } else { &avg }));
    assert!(bits_eq(iw.get_gv(0), if ok && which == 2 { &w } else { &avg }));
    assert!(bits_eq(iw.get_parameter(0), &avg) && bits_eq(iw.get_gv(1), &avg));
    kani::cover!(ok && which == 1);
}
