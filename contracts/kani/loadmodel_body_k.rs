//@attach src/engine.rs
// K-loadmodel-body: the REAL BODY of Condition::load_model (C20: a freshly loaded engine has the voice's sampling
// rate and frame period, MSD threshold 0.5 and GV weight 1 for EVERY stream, uniform interpolation weights), cut
// from the tree under check on every run and compiled as a second method of the real Condition that takes a shim
// voice set (global_metadata / stream_metadata / len with the same names; a real VoiceSet needs Arc<Voice>, whose
// construction CBMC cannot afford).  The API-level counterpart of Verus unit cond, which loses its anchors when the
// default-setting statements are rewritten.  Bounded: 3 streams, no OPTION entries (the option loop is K-options).
//@harness name=load_model_default_statements tier=quick label=bounded(3-streams,shim-metadata) props=C20,C11,C12 timeout=900
// harness (NOT REGISTERED: no answer in 15 minutes / 7 GB: the option loop over Strings and InterporationWeight::new on top of slice::repeat) name=load_model_defaults_for_every_stream tier=quick label=bounded(3-streams,no-options,shim-voice-set) props=C20,C11,C12 timeout=900
use super::*;

pub struct SGlobalMeta { num_streams: usize, sampling_frequency: usize, frame_period: usize }
pub struct SStreamMeta { option: Vec<String>, use_gv: bool }
pub struct SVoiceSet { g: SGlobalMeta, s: Vec<SStreamMeta>, n: usize }
impl SVoiceSet {
    fn global_metadata(&self) -> &SGlobalMeta { &self.g }
    fn stream_metadata(&self, i: usize) -> &SStreamMeta { &self.s[i] }
    fn len(&self) -> usize { self.n }
}
impl Condition {
    fn load_model_on_shim(&mut self, voices: &SVoiceSet) -> Result<(), EngineError>
    /*@BODY src/engine.rs :: impl Condition :: fn load_model@*/
}

impl Condition {
    /// only the default-setting statements (between the `/* global */` and `/* spectrum */` comments of the text)
    #[allow(unused_variables)]
    fn load_defaults_on_shim(&mut self, voices: &SVoiceSet) {
        let metadata = voices.global_metadata();
        let nstream = metadata.num_streams;
        /*@SLICE src/engine.rs :: impl Condition :: fn load_model :: from "/* global */" to "/* spectrum */"@*/
    }
}

#[kani::proof]
#[kani::unwind(6)]
fn load_model_default_statements() {
    let voices = SVoiceSet {
        g: SGlobalMeta { num_streams: 3, sampling_frequency: 48000, frame_period: 240 },
        s: vec![SStreamMeta { option: Vec::new(), use_gv: true }, SStreamMeta { option: Vec::new(), use_gv: true },
                SStreamMeta { option: Vec::new(), use_gv: false }],
        n: 2,
    };
    let mut c = Condition::default();
    c.msd_threshold = vec![0.9];
    c.gv_weight = vec![0.0, 0.0];
    c.load_defaults_on_shim(&voices);
    assert!(c.get_sampling_frequency() == 48000 && c.get_fperiod() == 240);
    assert!(c.msd_threshold.len() == 3 && c.gv_weight.len() == 3);
    let i: usize = kani::any();
    kani::assume(i < 3);
    assert!(c.get_msd_threshold(i) == 0.5);
    assert!(c.get_gv_weight(i) == 1.0);
    kani::cover!(true);
    std::mem::forget(voices);
}

#[kani::proof]
#[kani::unwind(6)]
fn load_model_defaults_for_every_stream() {
    let voices = SVoiceSet {
        g: SGlobalMeta { num_streams: 3, sampling_frequency: 48000, frame_period: 240 },
        s: vec![SStreamMeta { option: Vec::new(), use_gv: true }, SStreamMeta { option: Vec::new(), use_gv: true },
                SStreamMeta { option: Vec::new(), use_gv: false }],
        n: 2,
    };
    let mut c = Condition::default();
    c.msd_threshold = vec![0.9];
    c.gv_weight = vec![0.0, 0.0];
    let r = c.load_model_on_shim(&voices);
    assert!(r.is_ok());
    assert!(c.get_sampling_frequency() == 48000 && c.get_fperiod() == 240);
    assert!(c.msd_threshold.len() == 3 && c.gv_weight.len() == 3);
    let i: usize = kani::any();
    kani::assume(i < 3);
    assert!(c.get_msd_threshold(i) == 0.5);
    assert!(c.get_gv_weight(i) == 1.0);
    assert!(c.get_interporation_weight().get_duration().len() == 2);
    kani::cover!(true);
    std::mem::forget(voices);
}
