//@attach src/vocoder/lsp.rs
// K-lsp: contracts of the two iterator-chain holes of Verus unit lsp (C13): `p` is -2cos of every second
// frequency starting with the first, `q` of every second starting with the second; lengths ceil(m/2) and
// floor(m/2).  cos is replaced by the identity (libm is not modelled by CBMC; the contract only says WHICH
// elements are read), values are distinct powers of two so that -2 * x is exact.  Bounded: m = 0..5.
//@harness name=hole_pq_contract_m5 tier=quick label=bounded(m=5,concrete-values) props=C13 timeout=600
//@harness name=hole_pq_contract_m4_m1_m0 tier=quick label=bounded(m=4,1,0,concrete-values) props=C13 timeout=600
//@harness name=lsp2lpc_is_the_product_of_the_lsp_factors tier=quick label=bounded(orders-2..5,concrete-exact-values,cos-stubbed) props=C13 timeout=900
use super::*;

fn id_cos(x: f64) -> f64 { x }

fn tables(lsp: &[f64]) -> (Vec<f64>, Vec<f64>) {
    let p: Vec<f64> = /*@HOLE p@*/;
    let q: Vec<f64> = /*@HOLE q@*/;
    (p, q)
}

#[kani::proof]
#[kani::unwind(8)]
#[kani::stub(f64::cos, id_cos)]
fn hole_pq_contract_m5() {
    let v = [1.0, 2.0, 4.0, 8.0, 16.0];
    let (p, q) = tables(&v);
    assert!(p.len() == 3 && p[0] == -2.0 && p[1] == -8.0 && p[2] == -32.0);
    assert!(q.len() == 2 && q[0] == -4.0 && q[1] == -16.0);
    kani::cover!(true);
}

#[kani::proof]
#[kani::unwind(8)]
#[kani::stub(f64::cos, id_cos)]
fn hole_pq_contract_m4_m1_m0() {
    let v = [1.0, 2.0, 4.0, 8.0];
    let (p, q) = tables(&v);
    assert!(p.len() == 2 && p[0] == -2.0 && p[1] == -8.0);
    assert!(q.len() == 2 && q[0] == -4.0 && q[1] == -16.0);
    let (p1, q1) = tables(&v[..1]);
    assert!(p1.len() == 1 && p1[0] == -2.0 && q1.len() == 0);
    let (p0, q0) = tables(&v[..0]);
    assert!(p0.len() == 0 && q0.len() == 0);
    kani::cover!(true);
}

/// API-level counterpart of the Verus contract, straight from the property: A(z) = (P(z) + Q(z)) / 2 where P and Q
/// are the products of the factors 1 - 2cos(w_i) z^-1 + z^-2 over the odd- / even-numbered frequencies, times
/// (1 + z^-1) and (1 - z^-1) for an even order, times 1 and (1 - z^-2) for an odd order.  cos is the identity here
/// and w = 0.5, 1.0, 1.5, .. so that every coefficient is a small dyadic rational and the comparison is exact;
/// the expected values were obtained by polynomial multiplication over the rationals.  The gain entry (7.0) must
/// not influence the polynomial.
#[kani::proof]
#[kani::unwind(8)]
#[kani::stub(f64::cos, id_cos)]
fn lsp2lpc_is_the_product_of_the_lsp_factors() {
    let l2 = LineSpectralPairs::new(&[7.0, 0.5, 1.0], 0.0, false, 1, -1.0).lsp2lpc();
    assert!(l2.len() == 3 && l2[0] == 1.0 && l2[1] == -1.5 && l2[2] == 1.5);
    let l3 = LineSpectralPairs::new(&[7.0, 0.5, 1.0, 1.5], 0.0, false, 1, -1.0).lsp2lpc();
    assert!(l3.len() == 4 && l3[0] == 1.0 && l3[1] == -3.0 && l3[2] == 2.5 && l3[3] == -1.0);
    let l4 = LineSpectralPairs::new(&[7.0, 0.5, 1.0, 1.5, 2.0], 0.0, false, 1, -1.0).lsp2lpc();
    assert!(l4.len() == 5 && l4[0] == 1.0 && l4[1] == -5.0 && l4[2] == 8.5 && l4[3] == -7.5 && l4[4] == 2.0);
    let l5 = LineSpectralPairs::new(&[7.0, 0.5, 1.0, 1.5, 2.0, 2.5], 0.0, false, 1, -1.0).lsp2lpc();
    assert!(l5.len() == 6 && l5[0] == 1.0 && l5[1] == -7.5 && l5[2] == 17.5 && l5[3] == -16.5 && l5[4] == 8.5 && l5[5] == -1.5);
    kani::cover!(true);
}
