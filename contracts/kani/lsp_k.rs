//@attach src/vocoder/lsp.rs
// K-lsp: contracts of the two iterator-chain holes of Verus unit lsp (C13): `p` is -2cos of every second
// frequency starting with the first, `q` of every second starting with the second; lengths ceil(m/2) and
// floor(m/2).  cos is replaced by the identity (libm is not modelled by CBMC; the contract only says WHICH
// elements are read), values are distinct powers of two so that -2 * x is exact.  Bounded: m = 0..5.
//@harness name=hole_pq_contract_m5 tier=quick label=bounded(m=5,concrete-values) props=C13 timeout=600
//@harness name=hole_pq_contract_m4_m1_m0 tier=quick label=bounded(m=4,1,0,concrete-values) props=C13 timeout=600
use super::*;

fn id_cos(x: f64) -> f64 { x }

fn tables(lsp: &[f64]) -> (Vec<f64>, Vec<f64>) {
    let p: Vec<f64> = /*@HOLE p@*/;
    let q: Vec<f64> = /*@HOLE q@*/;
    (p, q)
}

#[kani::proof]
#[kani::unwind(8)]
#[kani::stub(f64::cos, id_cos)]
fn hole_pq_contract_m5() {
    let v = [1.0, 2.0, 4.0, 8.0, 16.0];
    let (p, q) = tables(&v);
    assert!(p.len() == 3 && p[0] == -2.0 && p[1] == -8.0 && p[2] == -32.0);
    assert!(q.len() == 2 && q[0] == -4.0 && q[1] == -16.0);
    kani::cover!(true);
}

#[kani::proof]
#[kani::unwind(8)]
#[kani::stub(f64::cos, id_cos)]
fn hole_pq_contract_m4_m1_m0() {
    let v = [1.0, 2.0, 4.0, 8.0];
    let (p, q) = tables(&v);
    assert!(p.len() == 2 && p[0] == -2.0 && p[1] == -8.0);
    assert!(q.len() == 2 && q[0] == -4.0 && q[1] == -16.0);
    let (p1, q1) = tables(&v[..1]);
    assert!(p1.len() == 1 && p1[0] == -2.0 && q1.len() == 0);
    let (p0, q0) = tables(&v[..0]);
    assert!(p0.len() == 0 && q0.len() == 0);
    kani::cover!(true);
}
