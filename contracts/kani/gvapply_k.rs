//@attach src/mlpg_adjust/mod.rs
// K-gvapply: MlpgMatrix::par without GV and MlpgGlobalVariance::apply_gv with no eligible frame (C12), called with
// their present signatures (kept apart from K-mlpg so that a signature change there does not take the MLPG shape
// harnesses down with it).
//@harness name=par_without_gv_is_plain_solve tier=quick label=bounded(T=2) props=C12 timeout=600
//@harness name=gv_no_eligible_frame_returns_input tier=quick label=bounded(T=2) props=C12 timeout=600
use super::*;
use crate::model::voice::window::Window;

fn static_windows() -> Windows { Windows::new(vec![Window::new(vec![1.0])]) }

/// C12: a stream without GV ignores the GV weight: par(&None, ..) is exactly solve()
#[kani::proof]
#[kani::unwind(8)]
fn par_without_gv_is_plain_solve() {
    let windows = static_windows();
    let mk = || MlpgMatrix::calc_wuw_and_wum(&windows, vec![vec![MeanVari(1.5, 0.5), MeanVari(-2.0, 0.25)]]);
    let w: f64 = kani::any();
    let mask: Mask = [true, true].into_iter().collect();
    let a = mk().par(&None, 0, w, &[1, 1], &mask);
    let b = mk().solve();
    assert!(a.len() == 2 && b.len() == 2);
    assert!(a[0].to_bits() == b[0].to_bits() && a[1].to_bits() == b[1].to_bits());
    kani::cover!(true);
}

/// C12: with no GV-eligible frame the trajectory is returned unchanged (the plain ML solution)
#[kani::proof]
#[kani::unwind(8)]
fn gv_no_eligible_frame_returns_input() {
    let windows = static_windows();
    let mtx = MlpgMatrix::calc_wuw_and_wum(&windows, vec![vec![MeanVari(1.5, 0.5), MeanVari(-2.0, 0.25)]]);
    let p: [f64; 2] = kani::any();
    let sw = [false, false];
    let gvm: f64 = kani::any();
    let gvv: f64 = kani::any();
    let out = mlpg::MlpgGlobalVariance::new(mtx, vec![p[0], p[1]], &sw).apply_gv(gvm, gvv);
    assert!(out.len() == 2);
    assert!(out[0].to_bits() == p[0].to_bits() && out[1].to_bits() == p[1].to_bits());
    kani::cover!(true);
}

