//@attach src/model/mod.rs
//@needs model_k voice_set_k
// NOT REGISTERED: every harness below exceeds 10 minutes under CBMC even with concrete values (Voice /
// Label construction, flat_map, Cow, iterator position): Models::{duration, stream, gv} stay ASSUMED
// (shape) / not decided (which-weights).  Kept as documentation of what was tried.
// K-models: Models::{duration, stream, gv} on two labels, two states, single-leaf trees (C01 shapes,
// C10 which-weights, C11 msd = f64::MAX for non-MSD streams, C12 gv = None without GV).
// harness (NOT REGISTERED) name=duration_shape_and_order tier=quick label=bounded(2-labels,2-states,1-voice,concrete-values) props=C01,C10 timeout=600
// harness (NOT REGISTERED) name=stream_shape_msd_stream tier=quick label=bounded(2-labels,2-states,1-voice,concrete-values) props=C01,C11 timeout=600
// harness (NOT REGISTERED) name=stream_shape_non_msd_stream tier=quick label=bounded(2-labels,2-states,1-voice,concrete-values) props=C01,C11 timeout=600
// harness (NOT REGISTERED) name=gv_none_without_gv tier=quick label=bounded(1-label) props=C12 timeout=600
// harness (NOT REGISTERED) name=which_weights_feed_which_quantity tier=quick label=bounded(1-label,1-state,2-voices) props=C10 timeout=600
use super::*;
use std::sync::Arc;
use crate::model::voice::{model::Model, question::Question, tree::{Tree, TreeNode}, window::{Window, Windows},
    GlobalModelMetadata, StreamModelMetadata, StreamModels};

fn question() -> Question {
    Question::AllQustion(jlabel_question::AllQuestion::Undefined(jlabel_question::Question {
        position: jlabel_question::position::UndefinedPotision::E4, range: None }))
}
fn leaf(state: usize) -> Tree { Tree { state, nodes: vec![TreeNode::Leaf { pdf_index: 1 }] } }
fn any_label() -> Label {
    use jlabel::*;
    Label {
        phoneme: Phoneme { p2: None, p1: None, c: None, n1: None, n2: None },
        mora: None, word_prev: None, word_curr: None, word_next: None,
        accent_phrase_prev: None, accent_phrase_curr: None, accent_phrase_next: None,
        breath_group_prev: None, breath_group_curr: None, breath_group_next: None,
        utterance: Utterance { breath_group_count: 1, accent_phrase_count: 1, mora_count: 1 },
    }
}
fn voice(nstate: usize, dur: ModelParameter, streams: Vec<StreamModels>) -> Voice {
    Voice {
        metadata: GlobalModelMetadata {
            hts_voice_version: String::new(), sampling_frequency: 48000, frame_period: 240, num_states: nstate,
            num_streams: streams.len(), stream_type: vec![], fullcontext_format: String::new(), fullcontext_version: String::new(),
            gv_off_context: question() },
        duration_model: Model::new(vec![leaf(2)], vec![vec![dur]]),
        stream_models: streams,
    }
}

/// Models::duration: nstate entries per label, in label order then state order
#[kani::proof]
#[kani::unwind(8)]
fn duration_shape_and_order() {
    // concrete, pairwise distinct values: the harness checks shape and ordering (symbolic values made
    // this harness exceed 15 minutes); value exactness is the subject of unit interp / K-vset
    let a: [f64; 4] = [1.0, 2.0, 3.0, 4.0];
    let dur = ModelParameter { parameters: vec![MeanVari(a[0], a[1]), MeanVari(a[2], a[3])], msd: None };
    let vs = VoiceSet::verif_from(vec![Arc::new(voice(2, dur, vec![]))]);
    let iw = InterporationWeight::new(1, 0);
    let labels = vec![any_label(), any_label()];
    let models = Models::new(&labels, &vs, &iw);
    assert!(models.nstate() == 2);
    let d = models.duration();
    assert!(d.len() == 4);
    // one voice with weight 1.0: the entries are the tree-selected Gaussians themselves
    assert!(d[0].0.to_bits() == (a[0] * 1.0).to_bits() && d[1].0.to_bits() == (a[2] * 1.0).to_bits());
    assert!(d[2].0.to_bits() == (a[0] * 1.0).to_bits() && d[3].1.to_bits() == (a[3] * 1.0).to_bits());
    kani::cover!(true);
    std::mem::forget(models); std::mem::forget(vs); std::mem::forget(labels);
}

fn stream_models(is_msd: bool, use_gv: bool, p2: ModelParameter, p3: ModelParameter) -> StreamModels {
    StreamModels::new(
        StreamModelMetadata { vector_length: 1, num_windows: 1, is_msd, use_gv, option: vec![] },
        Model::new(vec![leaf(2), leaf(3)], vec![vec![p2], vec![p3]]),
        None,
        Windows::new(vec![Window::new(vec![1.0])]),
    )
}

/// Models::stream: labels x nstate rows in order; state index s uses the tree for state s;
/// a Gaussian without voicing weight (non-MSD stream) gets msd = f64::MAX, otherwise its own weight
fn stream_shape_and_msd(has: bool) {
    let a: [f64; 4] = [1.0, 2.0, 3.0, 4.0];
    let w: f64 = 0.25;
    let p2 = ModelParameter { parameters: vec![MeanVari(a[0], a[1])], msd: if has { Some(w) } else { None } };
    let p3 = ModelParameter { parameters: vec![MeanVari(a[2], a[3])], msd: if has { Some(w) } else { None } };
    let dur = ModelParameter { parameters: vec![MeanVari(1.0, 1.0), MeanVari(1.0, 1.0)], msd: None };
    let vs = VoiceSet::verif_from(vec![Arc::new(voice(2, dur, vec![stream_models(has, false, p2, p3)]))]);
    let iw = InterporationWeight::new(1, 1);
    let labels = vec![any_label(), any_label()];
    let models = Models::new(&labels, &vs, &iw);
    let s = models.stream(0);
    assert!(s.len() == 4);
    assert!(s[0].0.len() == 1 && s[3].0.len() == 1);
    assert!(s[0].0[0].0.to_bits() == (a[0] * 1.0).to_bits() && s[1].0[0].0.to_bits() == (a[2] * 1.0).to_bits());
    assert!(s[2].0[0].1.to_bits() == (a[1] * 1.0).to_bits() && s[3].0[0].1.to_bits() == (a[3] * 1.0).to_bits());
    if has { assert!(s[0].1.to_bits() == (1.0 * w).to_bits()); } else { assert!(s[0].1 == f64::MAX && s[3].1 == f64::MAX); }
    assert!(models.vector_length(0) == 1);
    std::mem::forget(models); std::mem::forget(vs); std::mem::forget(labels);
}
#[kani::proof]
#[kani::unwind(8)]
fn stream_shape_msd_stream() { stream_shape_and_msd(true); kani::cover!(true); }
#[kani::proof]
#[kani::unwind(8)]
fn stream_shape_non_msd_stream() { stream_shape_and_msd(false); kani::cover!(true); }

/// C12: a stream that does not use GV has no GV parameters, so the GV weight cannot influence it
#[kani::proof]
#[kani::unwind(8)]
fn gv_none_without_gv() {
    let p = ModelParameter { parameters: vec![MeanVari(0.0, 1.0)], msd: None };
    let dur = ModelParameter { parameters: vec![MeanVari(1.0, 1.0), MeanVari(1.0, 1.0)], msd: None };
    let vs = VoiceSet::verif_from(vec![Arc::new(voice(2, dur, vec![stream_models(false, false, p.clone(), p)]))]);
    let iw = InterporationWeight::new(1, 1);
    let labels = vec![any_label()];
    let models = Models::new(&labels, &vs, &iw);
    assert!(models.gv(0).is_none());
    assert!(models.model_stream(0).gv.is_none());
    std::mem::forget(models); std::mem::forget(vs); std::mem::forget(labels);
}

/// C10: duration uses the duration weights, stream i uses parameter weights i (not the GV or
/// duration weights): two voices whose Gaussians are symbolic, three different constant weight vectors
#[kani::proof]
#[kani::unwind(8)]
fn which_weights_feed_which_quantity() {
    let d: [f64; 2] = [3.0, 5.0];
    let s: [f64; 2] = [7.0, 11.0];
    let mk = |dm: f64, sm: f64| {
        let dur = ModelParameter { parameters: vec![MeanVari(dm, 1.0)], msd: None };
        let p = ModelParameter { parameters: vec![MeanVari(sm, 1.0)], msd: None };
        let sm1 = StreamModels::new(
            StreamModelMetadata { vector_length: 1, num_windows: 1, is_msd: false, use_gv: false, option: vec![] },
            Model::new(vec![leaf(2)], vec![vec![p]]), None, Windows::new(vec![Window::new(vec![1.0])]));
        Arc::new(voice(1, dur, vec![sm1]))
    };
    let vs = VoiceSet::verif_from(vec![mk(d[0], s[0]), mk(d[1], s[1])]);
    let mut iw = InterporationWeight::new(2, 1);
    assert!(iw.set_duration(&[1.0, 0.0]).is_ok());
    assert!(iw.set_parameter(0, &[0.0, 1.0]).is_ok());
    assert!(iw.set_gv(0, &[0.25, 0.75]).is_ok());
    let labels = vec![any_label()];
    let models = Models::new(&labels, &vs, &iw);
    let dur = models.duration();
    assert!(dur.len() == 1 && dur[0].0 == d[0] * 1.0 + 0.0 * d[1]);     // duration weights (1, 0)
    let st = models.stream(0);
    assert!(st.len() == 1 && st[0].0[0].0 == s[0] * 0.0 + 1.0 * s[1]);  // parameter weights (0, 1)
    kani::cover!(true);
    std::mem::forget(models); std::mem::forget(vs); std::mem::forget(labels);
}
