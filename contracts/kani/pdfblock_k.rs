//@attach src/model/parser/model/mod.rs
// K-pdfblock: the PDF-block reader of parse_model (C04: "per-tree counts first, then for every tree n x pdf_len
// little-endian f32 values, each row split into means | variances | msd").  The reader is a closure inside parse_model,
// which is nom all the way down; its statements are cut from the text on every run (SLICE) and compiled in a module
// where nom's names (many_m_n, map, le_u32, le_f32) are bound to a minimal combinator set over a pre-decoded number
// stream (what the stand-ins drop: byte decoding, error kinds and nom's initial-capacity cap; their loop and the
// must-consume guard of many_m_n follow nom 8.0.0's source; assumed, a model of the dependency).  ModelParameter::from_linear is the
// real one.  Bounded: 2 trees, counts (2, 1), pdf_len 3, concrete values.
//@harness name=pdf_block_counts_then_rows_per_tree tier=quick label=bounded(2-trees,3-rows,pdf_len=3,concrete-values) props=C04 timeout=900
//@harness name=pdf_block_short_input_is_an_error tier=quick label=bounded(2-trees,truncated) props=C04,C18 timeout=900
//@harness name=pdf_block_rows_are_backed_by_input tier=quick label=bounded(1-tree,counts<=3,pdf_len<=1) props=C18 timeout=900
use crate::model::voice::model::ModelParameter;
use nom::IResult;

#[derive(Clone, Copy)]
pub struct SIn<'a> { t: &'a [f64], pos: usize }
pub struct SErr;
pub trait SP { type Out; fn parse<'a>(&mut self, i: SIn<'a>) -> IResult<SIn<'a>, Self::Out, SErr>; }
#[derive(Clone, Copy)] pub struct LeU32;
#[derive(Clone, Copy)] pub struct LeF32;
#[allow(non_upper_case_globals)] const le_u32: LeU32 = LeU32;
#[allow(non_upper_case_globals)] const le_f32: LeF32 = LeF32;
impl SP for LeU32 {
    type Out = u32;
    fn parse<'a>(&mut self, i: SIn<'a>) -> IResult<SIn<'a>, u32, SErr> {
        if i.pos < i.t.len() { Ok((SIn { t: i.t, pos: i.pos + 1 }, i.t[i.pos] as u32)) } else { Err(nom::Err::Error(SErr)) }
    }
}
impl SP for LeF32 {
    type Out = f32;
    fn parse<'a>(&mut self, i: SIn<'a>) -> IResult<SIn<'a>, f32, SErr> {
        if i.pos < i.t.len() { Ok((SIn { t: i.t, pos: i.pos + 1 }, i.t[i.pos] as f32)) } else { Err(nom::Err::Error(SErr)) }
    }
}
pub struct Map<P, F> { p: P, f: F }
fn map<P: SP, O, F: FnMut(P::Out) -> O>(p: P, f: F) -> Map<P, F> { Map { p, f } }
impl<P: SP, O, F: FnMut(P::Out) -> O> SP for Map<P, F> {
    type Out = O;
    fn parse<'a>(&mut self, i: SIn<'a>) -> IResult<SIn<'a>, O, SErr> { let (r, v) = self.p.parse(i)?; Ok((r, (self.f)(v))) }
}
// many_m_n as in nom 8.0.0 (src/multi/mod.rs, ManyMN::process) for min == max: run the parser up to n times; an
// iteration that succeeds WITHOUT consuming input is an error (nom's "the parser must always consume" guard), an
// iteration that fails is an error (count < min).  n == 0 succeeds with nothing consumed.
pub struct Many<P> { n: usize, p: P }
fn many_m_n<P: SP>(m: usize, n: usize, p: P) -> Many<P> { assert!(m == n); Many { n, p } }
impl<P: SP> SP for Many<P> {
    type Out = Vec<P::Out>;
    fn parse<'a>(&mut self, mut i: SIn<'a>) -> IResult<SIn<'a>, Vec<P::Out>, SErr> {
        let mut v = Vec::new();
        let mut k = 0;
        while k < self.n {
            let (r, x) = self.p.parse(i)?;
            if r.pos == i.pos { return Err(nom::Err::Error(SErr)); }
            v.push(x); i = r; k += 1;
        }
        Ok((i, v))
    }
}
// count as in nom 8.0.0 (Count::process): run the parser exactly n times, no consumption guard
pub struct Count<P> { n: usize, p: P }
#[allow(dead_code)]
fn count<P: SP>(p: P, n: usize) -> Count<P> { Count { n, p } }
impl<P: SP> SP for Count<P> {
    type Out = Vec<P::Out>;
    fn parse<'a>(&mut self, mut i: SIn<'a>) -> IResult<SIn<'a>, Vec<P::Out>, SErr> {
        let mut v = Vec::new();
        let mut k = 0;
        while k < self.n { let (r, x) = self.p.parse(i)?; v.push(x); i = r; k += 1; }
        Ok((i, v))
    }
}

fn pdf_block<'a>(i: SIn<'a>, trees: &Vec<u8>, pdf_len: usize) -> IResult<SIn<'a>, Vec<Vec<ModelParameter>>, SErr> {
    /*@SLICE src/model/parser/model/mod.rs :: fn parse_model :: from "|i| {" to "}, pdf_range,"@*/
}

#[kani::proof]
#[kani::unwind(8)]
fn pdf_block_counts_then_rows_per_tree() {
    // counts for 2 trees: 2 and 1; then 3 rows of (mean, variance, msd)
    let t = [2.0, 1.0,  1.0, 0.5, 0.25,  2.0, 0.75, 0.125,  3.0, 1.5, 1.0];
    let trees = vec![0u8, 0u8];
    let r = pdf_block(SIn { t: &t, pos: 0 }, &trees, 3);
    match &r {
        Ok((rest, pdf)) => {
            assert!(rest.pos == 11);
            assert!(pdf.len() == 2 && pdf[0].len() == 2 && pdf[1].len() == 1);
            let p = &pdf[0][1];
            assert!(p.parameters.len() == 1 && p.parameters[0].0 == 2.0 && p.parameters[0].1 == 0.75 && p.msd == Some(0.125));
            let q = &pdf[1][0];
            assert!(q.parameters[0].0 == 3.0 && q.parameters[0].1 == 1.5 && q.msd == Some(1.0));
            assert!(pdf[0][0].parameters[0].0 == 1.0 && pdf[0][0].msd == Some(0.25));
        }
        Err(_) => assert!(false),
    }
    kani::cover!(true);
    std::mem::forget(r);
}

#[kani::proof]
#[kani::unwind(8)]
fn pdf_block_short_input_is_an_error() {
    let t = [2.0, 1.0,  1.0, 0.5, 0.25,  2.0, 0.75];        // the second row of tree 0 is cut short
    let trees = vec![0u8, 0u8];
    let r = pdf_block(SIn { t: &t, pos: 0 }, &trees, 3);
    assert!(r.is_err());
    let t2 = [2.0];                                          // not even all the counts
    let r2 = pdf_block(SIn { t: &t2, pos: 0 }, &trees, 3);
    assert!(r2.is_err());
    // no tree: no count is read, nothing is consumed
    let t3 = [7.0, 7.0];
    let no_trees: Vec<u8> = vec![];
    let r3 = pdf_block(SIn { t: &t3, pos: 0 }, &no_trees, 3);
    match &r3 { Ok((rest, pdf)) => assert!(rest.pos == 0 && pdf.is_empty()), Err(_) => assert!(false) }
    kani::cover!(true);
    std::mem::forget((r, r2, r3));
}

/// C18 ("never tries to allocate unbounded memory"): the rows the reader produces are backed by input it consumed -
/// the number of PDFs it hands back never exceeds the number of values it read, whatever count the block announces.
/// A zero PDF length (a header number of 0) with a non-zero count is therefore an error, not `count` empty rows.
#[kani::proof]
#[kani::unwind(8)]
fn pdf_block_rows_are_backed_by_input() {
    let trees = vec![0u8];
    let mut n = 0;
    while n <= 3 {
        let mut len = 0;
        while len <= 1 {
            let t = [n as f64, 1.0];                         // the announced count, then at most one value
            let r = pdf_block(SIn { t: &t, pos: 0 }, &trees, len);
            match &r {
                Ok((rest, pdf)) => {
                    let mut rows = 0;
                    let mut k = 0;
                    while k < pdf.len() { rows += pdf[k].len(); k += 1; }
                    assert!(rows <= rest.pos);
                    kani::cover!(rows == 1);
                }
                Err(_) => {}                                 // an error is always an acceptable answer for C18
            }
            std::mem::forget(r);
            len += 1;
        }
        n += 1;
    }
    kani::cover!(true);
}
