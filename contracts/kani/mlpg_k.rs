//@attach src/mlpg_adjust/mod.rs
//@needs mlpgmtx_k
// K-mlpg: MlpgAdjust::create — frame expansion, NODATA at unvoiced frames, shape (C01, C05, C11);
// MlpgMatrix::par / MlpgGlobalVariance (C12).  Durations (structure) concrete, voicing data symbolic.
//@harness name=create_shape_all_voiced tier=quick label=bounded(durations=[1,2],static-window,concrete-voicing) props=C01,C05,C11 timeout=600
//@harness name=create_shape_second_state_unvoiced tier=quick label=bounded(durations=[1,2],static-window,concrete-voicing) props=C01,C05,C11 timeout=600
//@harness name=create_shape_first_state_unvoiced tier=quick label=bounded(durations=[1,2],static-window,concrete-voicing) props=C01,C05,C11 timeout=600
//@harness name=create_zero_precision_at_edges tier=quick label=bounded(durations=[1,1,1],delta-window,concrete-data) props=C05 timeout=900
//@harness name=create_zero_precision_width5 tier=quick label=bounded(5-frames,width-5-window,concrete-data) props=C05 timeout=900
//@harness name=create_zero_precision_next_to_unvoiced tier=quick label=bounded(3-frames,delta-window,concrete-data) props=C05,C11 timeout=900
//@harness name=adjust_new_stores_its_arguments_unchanged tier=quick label=bounded(1-state,concrete-gv) props=C12,C11,C05 timeout=900
//@harness name=create_shape_all_unvoiced tier=quick label=bounded(durations=[1,2],static-window,concrete-voicing) props=C05,C11,C01 timeout=900
use super::*;
use crate::model::voice::window::Window;

fn static_windows() -> Windows { Windows::new(vec![Window::new(vec![1.0])]) }

/// durations [1, 2] over two states, one concrete voicing pattern per harness (a symbolic mask makes
/// the iterator chains of create() intractable for CBMC, P19): 3 rows of vector_length values; a frame
/// carries NODATA iff its state's voicing weight is not above the threshold; rows follow the state order
fn shape_and_nodata(m0: f64, m1: f64, th: f64) {
    let windows = static_windows();
    let stream = StreamParameter::new(vec![
        (vec![MeanVari(1.0, 1.0)], m0),
        (vec![MeanVari(2.0, 1.0)], m1),
    ]);
    let adj = MlpgAdjust::new(1.0, th, ModelStream { vector_length: 1, stream, gv: None, windows: &windows });
    let out = adj.create(&[1, 2]);
    assert!(out.len() == 3);
    assert!(out[0].len() == 1 && out[1].len() == 1 && out[2].len() == 1);
    // static window only: the ML trajectory is the state mean itself
    if m0 > th { assert!(out[0][0] == 1.0); } else { assert!(out[0][0] == NODATA); }
    if m1 > th { assert!(out[1][0] == 2.0 && out[2][0] == 2.0); } else { assert!(out[1][0] == NODATA && out[2][0] == NODATA); }
}
#[kani::proof]
#[kani::unwind(8)]
fn create_shape_all_voiced() { shape_and_nodata(0.9, f64::MAX, 0.5); kani::cover!(true); }
#[kani::proof]
#[kani::unwind(8)]
fn create_shape_second_state_unvoiced() { shape_and_nodata(0.9, 0.5, 0.5); kani::cover!(true); }   // weight == threshold is unvoiced
#[kani::proof]
#[kani::unwind(8)]
fn create_shape_all_unvoiced() { shape_and_nodata(0.1, 0.2, 0.5); kani::cover!(true); }   // no voiced frame at all: every row carries NODATA
#[kani::proof]
#[kani::unwind(8)]
fn create_shape_first_state_unvoiced() { shape_and_nodata(0.1, 0.9, 0.5); kani::cover!(true); }

fn check_params(windows: &Windows, parameters: Vec<Vec<MeanVari>>) -> MlpgMatrix {
    // captured argument of calc_wuw_and_wum for: 3 states x 1 frame, all voiced, windows {static, delta(3)},
    // state s has static mean 10*s and delta mean 10*s+1, all variances 2.0 (precision 0.5)
    assert!(parameters.len() == 2);
    assert!(parameters[0].len() == 3 && parameters[1].len() == 3);
    let mut t = 0;
    while t < 3 {
        assert!(parameters[0][t].0 == (10 * t) as f64 && parameters[0][t].1 == 0.5);
        assert!(parameters[1][t].0 == (10 * t + 1) as f64);
        t += 1;
    }
    // the delta window reaches over the utterance edge at the first and last frame: precision 0 there
    assert!(parameters[1][0].1 == 0.0 && parameters[1][1].1 == 0.5 && parameters[1][2].1 == 0.0);
    MlpgMatrix::verif_dummy(windows.size(), 3)
}

/// each frame takes the Gaussian of the state its duration assigns; dynamic windows touching the
/// utterance edge get zero precision
#[kani::proof]
#[kani::unwind(8)]
#[kani::stub(MlpgMatrix::calc_wuw_and_wum, check_params)]
fn create_zero_precision_at_edges() {
    let windows = Windows::new(vec![Window::new(vec![1.0]), Window::new(vec![-0.5, 0.0, 0.5])]);
    let stream = StreamParameter::new(vec![
        (vec![MeanVari(0.0, 2.0), MeanVari(1.0, 2.0)], f64::MAX),
        (vec![MeanVari(10.0, 2.0), MeanVari(11.0, 2.0)], f64::MAX),
        (vec![MeanVari(20.0, 2.0), MeanVari(21.0, 2.0)], f64::MAX),
    ]);
    let adj = MlpgAdjust::new(1.0, 0.5, ModelStream { vector_length: 1, stream, gv: None, windows: &windows });
    let out = adj.create(&[1, 1, 1]);
    assert!(out.len() == 3);
    kani::cover!(true);
}

fn check_params_w5(windows: &Windows, parameters: Vec<Vec<MeanVari>>) -> MlpgMatrix {
    // 5 voiced frames, windows {static, width-5 delta}: the dynamic window spans 2 frames to either side,
    // so only the middle frame (distance 2 from both edges) keeps its dynamic observation
    assert!(parameters.len() == 2 && parameters[1].len() == 5);
    assert!(parameters[1][0].1 == 0.0 && parameters[1][1].1 == 0.0);
    assert!(parameters[1][2].1 == 0.5);
    assert!(parameters[1][3].1 == 0.0 && parameters[1][4].1 == 0.0);
    let mut t = 0;
    while t < 5 { assert!(parameters[0][t].1 == 0.5); t += 1; }
    MlpgMatrix::verif_dummy(windows.size(), 5)
}
#[kani::proof]
#[kani::unwind(9)]
#[kani::stub(MlpgMatrix::calc_wuw_and_wum, check_params_w5)]
fn create_zero_precision_width5() {
    let windows = Windows::new(vec![Window::new(vec![1.0]), Window::new(vec![-0.2, -0.1, 0.0, 0.1, 0.2])]);
    let st = |k: f64| (vec![MeanVari(k, 2.0), MeanVari(k + 0.5, 2.0)], f64::MAX);
    let stream = StreamParameter::new(vec![st(0.0), st(1.0), st(2.0), st(3.0), st(4.0)]);
    let adj = MlpgAdjust::new(1.0, 0.5, ModelStream { vector_length: 1, stream, gv: None, windows: &windows });
    let out = adj.create(&[1, 1, 1, 1, 1]);
    assert!(out.len() == 5);
    kani::cover!(true);
}

fn check_params_unvoiced(windows: &Windows, parameters: Vec<Vec<MeanVari>>) -> MlpgMatrix {
    // voiced, unvoiced, voiced: the unvoiced frame is removed and both neighbours lose their dynamic observation
    assert!(parameters.len() == 2 && parameters[0].len() == 2 && parameters[1].len() == 2);
    assert!(parameters[0][0].0 == 0.0 && parameters[0][1].0 == 20.0);
    assert!(parameters[0][0].1 == 0.5 && parameters[0][1].1 == 0.5);
    assert!(parameters[1][0].1 == 0.0 && parameters[1][1].1 == 0.0);
    MlpgMatrix::verif_dummy(windows.size(), 2)
}
#[kani::proof]
#[kani::unwind(8)]
#[kani::stub(MlpgMatrix::calc_wuw_and_wum, check_params_unvoiced)]
fn create_zero_precision_next_to_unvoiced() {
    let windows = Windows::new(vec![Window::new(vec![1.0]), Window::new(vec![-0.5, 0.0, 0.5])]);
    let stream = StreamParameter::new(vec![
        (vec![MeanVari(0.0, 2.0), MeanVari(1.0, 2.0)], 0.9),
        (vec![MeanVari(10.0, 2.0), MeanVari(11.0, 2.0)], 0.1),
        (vec![MeanVari(20.0, 2.0), MeanVari(21.0, 2.0)], 0.9),
    ]);
    let adj = MlpgAdjust::new(1.0, 0.5, ModelStream { vector_length: 1, stream, gv: None, windows: &windows });
    let out = adj.create(&[1, 1, 1]);
    assert!(out.len() == 3 && out[1][0] == NODATA);
    kani::cover!(true);
}

/// C12 / C11: MlpgAdjust::new only stores what it is given: the GV statistics and switch, the GV weight and the MSD
/// threshold reach `create` exactly as the engine passed them (the weight is applied once, in MlpgMatrix::par)
#[kani::proof]
#[kani::unwind(6)]
fn adjust_new_stores_its_arguments_unchanged() {
    let windows = static_windows();
    let w: f64 = kani::any();
    let t: f64 = kani::any();
    kani::assume(!w.is_nan() && !t.is_nan());
    let stream = StreamParameter::new(vec![(vec![MeanVari(1.0, 2.0)], 0.9)]);
    let gv: GvParameter = (vec![MeanVari(3.0, 4.0), MeanVari(5.0, 6.0)], vec![true, false]);
    let a = MlpgAdjust::new(w, t, ModelStream { vector_length: 1, stream, gv: Some(gv), windows: &windows });
    assert!(a.gv_weight.to_bits() == w.to_bits() && a.msd_threshold.to_bits() == t.to_bits() && a.vector_length == 1);
    match &a.gv {
        Some((p, sw)) => {
            assert!(p.len() == 2 && p[0].0 == 3.0 && p[0].1 == 4.0 && p[1].0 == 5.0 && p[1].1 == 6.0);
            assert!(sw.len() == 2 && sw[0] && !sw[1]);
        }
        None => assert!(false),
    }
    assert!(a.stream.len() == 1 && a.stream[0].0[0].0 == 1.0 && a.stream[0].1 == 0.9);
    kani::cover!(true);
    std::mem::forget(a);
}
