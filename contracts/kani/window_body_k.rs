//@attach src/model/parser/window.rs
// K-window-body: the REAL BODY of WindowParser::parse_window_row (C18: a window row states its own coefficient count;
// a huge count must be an error, not a panic or an allocation of that size), cut from the tree under check on every
// run, compiled in a module where nom's combinator names (digit1, space1, double, preceded, many_m_n, map) are bound
// to tiny stand-ins over a pre-tokenised input: `digit1` yields the announced count (ANY usize), the row then holds
// at most 3 coefficients.  The stand-in for many_m_n(n, n, p) fails when fewer than n items are available and never
// allocates by n - the behaviour ASSUMED of nom 8 (it caps its initial capacity).  Whatever the body itself does with
// the count is real: Kani's built-in checks flag a `capacity overflow` panic or an arithmetic overflow on it.
// Loop-free apart from the <= 4 item reads: complete for the count, bounded (<= 3 coefficients) for the row.
//@harness name=window_row_count_is_never_an_allocation_size tier=quick label=bounded(row<=3-coefficients,count=any-usize) props=C18,C04 timeout=900
use crate::model::voice::window::Window;
use nom::error::ErrorKind;
use nom::IResult;

#[derive(Clone, Copy)]
pub struct SIn { count: usize, avail: usize }      // announced count, coefficients really present (<= 3)
#[derive(Clone, Copy)]
pub struct SNum(usize);
impl SNum { fn parse_to(&self) -> Option<usize> { Some(self.0) } }
pub struct SErr;
impl SErr { fn from_error_kind(_n: SNum, _k: ErrorKind) -> Self { SErr } }
type E = SErr;

fn digit1(i: SIn) -> IResult<SIn, SNum, SErr> { Ok((i, SNum(i.count))) }
pub struct Space1;
pub struct Double;
fn space1() -> Space1 { Space1 }
#[allow(non_upper_case_globals)]
const double: Double = Double;
pub struct Item;
fn preceded<A>(_a: A, _b: Double) -> Item { Item }
impl Item {
    fn parse(&mut self, i: SIn) -> IResult<SIn, f64, SErr> {
        if i.avail == 0 { Err(nom::Err::Error(SErr)) } else { Ok((SIn { count: i.count, avail: i.avail - 1 }, 0.5)) }
    }
}
pub struct Many { n: usize }
fn many_m_n(m: usize, n: usize, _p: Item) -> Many { assert!(m == n); Many { n } }
pub struct Mapped { inner: Many }
fn map(inner: Many, _f: fn(Vec<f64>) -> Window) -> Mapped { Mapped { inner } }
impl Mapped {
    fn parse(&mut self, i: SIn) -> IResult<SIn, Window, SErr> {
        let n = self.inner.n;
        if n > i.avail { return Err(nom::Err::Error(SErr)); }
        let v = if n == 0 { vec![] } else if n == 1 { vec![0.5] } else if n == 2 { vec![0.5, 0.5] } else { vec![0.5, 0.5, 0.5] };
        Ok((SIn { count: i.count, avail: i.avail - n }, Window::new(v)))
    }
}
fn parse_window_row(i: SIn) -> IResult<SIn, Window, SErr>
/*@BODY src/model/parser/window.rs :: impl WindowParser :: fn parse_window_row@*/

#[kani::proof]
#[kani::unwind(6)]
fn window_row_count_is_never_an_allocation_size() {
    let count: usize = kani::any();
    let avail: usize = kani::any();
    kani::assume(avail <= 3);
    let r = parse_window_row(SIn { count, avail });
    match &r {
        Ok((rest, w)) => assert!(count <= avail && w.width() == count && rest.avail == avail - count),
        Err(_) => assert!(count > avail),
    }
    kani::cover!(count == 3 && avail == 3);
    kani::cover!(count > (1usize << 61));
    std::mem::forget(r);
}
