//@attach src/model/parser/window.rs
// K-window-body: the REAL BODY of WindowParser::parse_window_row (C18: a window row states its own coefficient count;
// a huge count must be an error, not a panic or an allocation of that size), cut from the tree under check on every
// run, compiled in a module where nom's combinator names (digit1, space1, double, preceded, many_m_n, map) are bound
// to tiny stand-ins over a pre-tokenised input: `digit1` yields the announced count (ANY usize), the row then holds
// at most 3 coefficients.  The stand-in for many_m_n(n, n, p) fails when fewer than n items are available and never
// allocates by n - the behaviour ASSUMED of nom 8 (it caps its initial capacity).  Whatever the body itself does with
// the count is real: Kani's built-in checks flag a `capacity overflow` panic or an arithmetic overflow on it.
// Loop-free apart from the <= 4 item reads: complete for the count, bounded (<= 3 coefficients) for the row.
// Both of nom's float readers have stand-ins: `double` yields the coefficient as written, `float` its f32 rounding.
//@harness name=window_row_is_read_as_written_and_count_is_no_allocation_size tier=quick label=bounded(row<=3-coefficients,count=any-usize) props=C18,C04 timeout=900
use crate::model::voice::window::Window;
use nom::error::ErrorKind;
use nom::IResult;

#[derive(Clone, Copy)]
pub struct SIn { count: usize, avail: usize }      // announced count, coefficients really present (<= 3); every coefficient reads 0.1
#[derive(Clone, Copy)]
pub struct SNum(usize);
impl SNum { fn parse_to(&self) -> Option<usize> { Some(self.0) } }
pub struct SErr;
impl SErr { fn from_error_kind(_n: SNum, _k: ErrorKind) -> Self { SErr } }
type E = SErr;

fn digit1(i: SIn) -> IResult<SIn, SNum, SErr> { Ok((i, SNum(i.count))) }
pub trait SP { type Out; fn parse(&mut self, i: SIn) -> IResult<SIn, Self::Out, SErr>; }
/// `double` reads the coefficient as written (0.1); `float` reads it through f32, as nom's `float` would
#[derive(Clone, Copy)] pub struct Dbl;
#[derive(Clone, Copy)] pub struct Flt;
#[allow(non_upper_case_globals)] const double: Dbl = Dbl;
#[allow(non_upper_case_globals, dead_code)] const float: Flt = Flt;
impl SP for Dbl {
    type Out = f64;
    fn parse(&mut self, i: SIn) -> IResult<SIn, f64, SErr> {
        if i.avail == 0 { Err(nom::Err::Error(SErr)) } else { Ok((SIn { count: i.count, avail: i.avail - 1 }, 0.1)) }
    }
}
impl SP for Flt {
    type Out = f32;
    fn parse(&mut self, i: SIn) -> IResult<SIn, f32, SErr> {
        if i.avail == 0 { Err(nom::Err::Error(SErr)) } else { Ok((SIn { count: i.count, avail: i.avail - 1 }, 0.1f64 as f32)) }
    }
}
pub struct Space1;
fn space1() -> Space1 { Space1 }
fn preceded<A, P: SP>(_a: A, p: P) -> P { p }
pub struct Map<P, F> { p: P, f: F }
fn map<P: SP, O, F: FnMut(P::Out) -> O>(p: P, f: F) -> Map<P, F> { Map { p, f } }
impl<P: SP, O, F: FnMut(P::Out) -> O> SP for Map<P, F> {
    type Out = O;
    fn parse(&mut self, i: SIn) -> IResult<SIn, O, SErr> { let (r, v) = self.p.parse(i)?; Ok((r, (self.f)(v))) }
}
pub struct Many<P> { n: usize, p: P }
fn many_m_n<P: SP>(m: usize, n: usize, p: P) -> Many<P> { assert!(m == n); Many { n, p } }
impl<P: SP> SP for Many<P> {
    type Out = Vec<P::Out>;
    fn parse(&mut self, mut i: SIn) -> IResult<SIn, Vec<P::Out>, SErr> {
        // fails when fewer than n items are available; never allocates by n (assumed of nom 8)
        if self.n > i.avail { return Err(nom::Err::Error(SErr)); }
        let mut v = Vec::new();
        let mut k = 0;
        while k < self.n { let (r, x) = self.p.parse(i)?; v.push(x); i = r; k += 1; }
        Ok((i, v))
    }
}

fn parse_window_row(i: SIn) -> IResult<SIn, Window, SErr>
/*@BODY src/model/parser/window.rs :: impl WindowParser :: fn parse_window_row@*/

#[kani::proof]
#[kani::unwind(6)]
fn window_row_is_read_as_written_and_count_is_no_allocation_size() {
    let count: usize = kani::any();
    let avail: usize = kani::any();
    kani::assume(avail <= 3);
    let r = parse_window_row(SIn { count, avail });
    match &r {
        Ok((rest, w)) => {
            assert!(count <= avail && w.width() == count && rest.avail == avail - count);
            // C04: the coefficients are the numbers written in the file (here 0.1), not their f32 roundings
            let want = if count == 0 { Window::new(vec![]) } else if count == 1 { Window::new(vec![0.1]) }
                       else if count == 2 { Window::new(vec![0.1, 0.1]) } else { Window::new(vec![0.1, 0.1, 0.1]) };
            assert!(*w == want);
        }
        Err(_) => assert!(count > avail),
    }
    kani::cover!(count == 3 && avail == 3);
    kani::cover!(count > (1usize << 61));
    std::mem::forget(r);
}
