//@attach src/mlpg_adjust/mlpg.rs
// accessor used by K-mlpg's argument-capturing stub (exists only under cfg(kani))
use super::*;
impl MlpgMatrix {
    pub(crate) fn verif_dummy(win_size: usize, length: usize) -> Self {
        Self { win_size, length, width: 1, wuw: vec![vec![1.0]; length], wum: vec![0.0; length] }
    }
}
