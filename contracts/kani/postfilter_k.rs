//@attach src/vocoder/cepstrum.rs
// K-post: MelCepstrum::postfilter_mcp no-op cases (C14).
//@harness name=postfilter_beta_nonpositive_is_identity tier=quick label=bounded(order=3) props=C14
//@harness name=postfilter_len0_is_identity tier=quick label=proved props=C14
//@harness name=postfilter_len1_is_identity tier=quick label=proved props=C14
//@harness name=postfilter_len2_is_identity tier=quick label=proved props=C14
//@harness name=hole_sumsq_contract tier=quick label=bounded(3-taps,concrete-values) props=C14 timeout=600
use super::*;

/// beta = 0 (or any non-positive / NaN beta) changes nothing, bit for bit
#[kani::proof]
#[kani::unwind(6)]
fn postfilter_beta_nonpositive_is_identity() {
    let c: [f64; 4] = kani::any();
    let alpha: f64 = kani::any();
    let beta: f64 = kani::any();
    kani::assume(!(beta > 0.0));
    let mut mc = MelCepstrum::new(&c, alpha);
    mc.postfilter_mcp(beta);
    assert!(mc.len() == 4);
    assert!(mc[0].to_bits() == c[0].to_bits() && mc[1].to_bits() == c[1].to_bits()
        && mc[2].to_bits() == c[2].to_bits() && mc[3].to_bits() == c[3].to_bits());
    assert!(mc.alpha.to_bits() == alpha.to_bits());
    kani::cover!(beta == 0.0);
}

/// with at most two coefficients (orders 0 and 1 only) the postfilter must be a no-op for every beta.
/// One harness per length: with a symbolic length CBMC unrolls the 576-tap energy computation of the
/// (unreachable) active branch and exhausts 12 GB.
fn short_is_identity(n: usize) {
    let c: [f64; 2] = kani::any();
    let alpha: f64 = kani::any();
    let beta: f64 = kani::any();
    let mut mc = MelCepstrum::new(&c[..n], alpha);
    mc.postfilter_mcp(beta);
    assert!(mc.len() == n);
    if n > 0 { assert!(mc[0].to_bits() == c[0].to_bits()); }
    if n > 1 { assert!(mc[1].to_bits() == c[1].to_bits()); }
}
#[kani::proof]
#[kani::unwind(5)]
fn postfilter_len0_is_identity() { short_is_identity(0); kani::cover!(true); }
#[kani::proof]
#[kani::unwind(5)]
fn postfilter_len1_is_identity() { short_is_identity(1); kani::cover!(true); }
#[kani::proof]
#[kani::unwind(5)]
fn postfilter_len2_is_identity() { short_is_identity(2); kani::cover!(true); }

/// hole `sumsq` of Verus unit b2en (the `iter().map(|x| x * x).sum()` tail of CoefficientsT::b2en), pasted
/// verbatim: every tap enters squared, once, nothing else
#[kani::proof]
#[kani::unwind(6)]
fn hole_sumsq_contract() {
    let ir: Vec<f64> = vec![1.5, -2.0, 0.25];
    let r: f64 = /*@HOLE sumsq@*/;
    assert!(r == 2.25 + 4.0 + 0.0625);
    let ir: Vec<f64> = vec![3.0];
    let r1: f64 = /*@HOLE sumsq@*/;
    assert!(r1 == 9.0);
    kani::cover!(true);
}
