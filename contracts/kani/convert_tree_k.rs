//@attach src/model/parser/model/mod.rs
// K-ldr (3): tree text -> node table with unknown question / node references (C18) and
// node ordering (C04).
// NOT REGISTERED: both harnesses exhaust the 12 GB RSS cap (BTreeMap::from_iter + sort_unstable +
// binary_search inside convert_tree); convert_tree is listed as not decided for C18/C04.
// harness name=convert_tree_single_leaf / convert_tree_unknown_refs
use super::*;
use self::tree::{Node, Tree as PTree};

// convert_tree is checked through this adapter so that the harness applies both to a version
// returning the tree directly and to one returning Result<Tree, _>
trait Outcome { fn ok_tree(&self) -> Option<&crate::model::voice::tree::Tree>; }
impl Outcome for crate::model::voice::tree::Tree { fn ok_tree(&self) -> Option<&crate::model::voice::tree::Tree> { Some(self) } }
impl<E> Outcome for std::result::Result<crate::model::voice::tree::Tree, E> {
    fn ok_tree(&self) -> Option<&crate::model::voice::tree::Tree> { self.as_ref().ok() }
}

fn question() -> Question {
    Question::AllQustion(jlabel_question::AllQuestion::Undefined(jlabel_question::Question {
        position: jlabel_question::position::UndefinedPotision::E4, range: None }))
}

/// a single-leaf tree (one node whose two branches name the same PDF) converts to one Leaf
#[kani::proof]
#[kani::unwind(4)]
fn convert_tree_single_leaf() {
    let p: u8 = kani::any();
    let t = PTree { state: 2, nodes: vec![Node { id: 0, question_name: String::new(), yes: TreeIndex::Pdf(p as isize), no: TreeIndex::Pdf(p as isize) }] };
    let lut: BTreeMap<String, Question> = BTreeMap::new();
    let r = convert_tree(t, &lut);
    if let Some(tree) = r.ok_tree() {
        assert!(tree.state == 2 && tree.nodes.len() == 1);
        assert!(matches!(tree.nodes[0], crate::model::voice::tree::TreeNode::Leaf { pdf_index } if pdf_index == p as usize));
    } else {
        assert!(false);
    }
    std::mem::forget(r);
    std::mem::forget(lut);
}

/// a node that names an undefined question, or a child node id that does not exist, is an
/// error value, never a panic (the question table is empty here: inserting into a
/// BTreeMap<String, Question> exhausts 12 GB under CBMC)
#[kani::proof]
#[kani::unwind(4)]
fn convert_tree_unknown_refs() {
    let child: i8 = kani::any();
    let t = PTree { state: 2, nodes: vec![Node { id: 0, question_name: String::from("q"),
        yes: TreeIndex::Node(child as isize), no: TreeIndex::Pdf(1) }] };
    let lut: BTreeMap<String, Question> = BTreeMap::new();
    let r = convert_tree(t, &lut);
    assert!(r.ok_tree().is_none());
    std::mem::forget(r);
    std::mem::forget(lut);
}
