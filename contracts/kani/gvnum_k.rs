//@attach src/mlpg_adjust/mlpg.rs
//@needs mlpgmtx_k
// K-gvnum: which frames the GV statistics and the variance rescaling touch (C12: "the variance of each generated
// coefficient over the GV-eligible frames"; "scaling the wrong frames" is the slip the tests cannot see).  calc_gv and
// conv_gv are iterator chains (zip / filter / map / sum, for_each): outside Verus; here the real functions run on
// concrete values chosen so that every intermediate is exact: eligible frames 0, 2, 0, 2 (mean 1, variance 1), one
// ineligible frame 99 in the middle; target variance 4 -> ratio sqrt(4 / 1) = 2 (sqrt stubbed: libm is not modelled
// by CBMC; the stub returns 2 for 4 and an arbitrary value otherwise).  Bounded (5 frames, concrete values).
//@harness name=calc_gv_uses_eligible_frames_only tier=quick label=bounded(5-frames,concrete-values) props=C12 timeout=900
//@harness name=conv_gv_rescales_eligible_frames_only tier=quick label=bounded(5-frames,concrete-values) props=C12 timeout=900
//@harness name=hmm_gradient_is_the_band_product tier=quick label=bounded(4-frames,width-3,concrete-exact-values) props=C12,C05 timeout=900
use super::*;

fn sqrt_stub(x: f64) -> f64 { if x == 4.0 { 2.0 } else { kani::any() } }

#[kani::proof]
#[kani::unwind(8)]
fn calc_gv_uses_eligible_frames_only() {
    let sw = [true, true, false, true, true];
    let g = MlpgGlobalVariance::new(MlpgMatrix::verif_dummy(1, 5), vec![0.0, 2.0, 99.0, 0.0, 2.0], &sw);
    let (mean, vari) = g.calc_gv();
    assert!(mean == 1.0 && vari == 1.0);
    kani::cover!(true);
    std::mem::forget(g);
}

#[kani::proof]
#[kani::unwind(8)]
#[kani::stub(f64::sqrt, sqrt_stub)]
fn conv_gv_rescales_eligible_frames_only() {
    let sw = [true, true, false, true, true];
    let mut g = MlpgGlobalVariance::new(MlpgMatrix::verif_dummy(1, 5), vec![0.0, 2.0, 99.0, 0.0, 2.0], &sw);
    g.conv_gv(4.0);
    // eligible frames are stretched about their mean to the target variance, the ineligible frame is untouched
    assert!(g.par.len() == 5 && g.par[0] == -1.0 && g.par[1] == 3.0 && g.par[2] == 99.0 && g.par[3] == -1.0 && g.par[4] == 3.0);
    let (mean, vari) = g.calc_gv();
    assert!(mean == 1.0 && vari == 4.0);
    kani::cover!(true);
    std::mem::forget(g);
}

/// C12 / C05: the HMM gradient used by the GV iteration is g = R c for the UNFACTORED symmetric band matrix R (upper
/// band stored by rows: entries to the right of the diagonal and, by symmetry, to the left), and the objective is
/// sum_t w c_t (r_t - g_t / 2) with w = 1 / (win_size * T).  Same exact matrix as K-solve (R c = (11, 23.5, 51.75, 40.5)
/// for c = (1, 2, 3, 4)); expected values computed over the rationals.
#[kani::proof]
#[kani::unwind(8)]
fn hmm_gradient_is_the_band_product() {
    let mtx = MlpgMatrix {
        win_size: 2,
        length: 4,
        width: 3,
        wuw: vec![vec![4.0, 2.0, 1.0], vec![5.0, 2.5, 1.0], vec![9.25, 4.5, 0.0], vec![6.25, 0.0, 0.0]],
        wum: vec![12.0, 24.0, 52.0, 40.0],
    };
    let sw = [true, true, true, true];
    let g = MlpgGlobalVariance::new(mtx, vec![1.0, 2.0, 3.0, 4.0], &sw);
    let (obj, grad) = g.calc_hmmobj_derivative();
    assert!(grad.len() == 4 && grad[0] == 11.0 && grad[1] == 23.5 && grad[2] == 51.75 && grad[3] == 40.5);
    assert!(obj == 23.546875);
    kani::cover!(true);
    std::mem::forget(g);
}
