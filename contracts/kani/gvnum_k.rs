//@attach src/mlpg_adjust/mlpg.rs
//@needs mlpgmtx_k
// K-gvnum: which frames the GV statistics and the variance rescaling touch (C12: "the variance of each generated
// coefficient over the GV-eligible frames"; "scaling the wrong frames" is the slip the tests cannot see).  calc_gv and
// conv_gv are iterator chains (zip / filter / map / sum, for_each): outside Verus; here the real functions run on
// concrete values chosen so that every intermediate is exact: eligible frames 0, 2, 0, 2 (mean 1, variance 1), one
// ineligible frame 99 in the middle; target variance 4 -> ratio sqrt(4 / 1) = 2 (sqrt stubbed: libm is not modelled
// by CBMC; the stub returns 2 for 4 and an arbitrary value otherwise).  Bounded (5 frames, concrete values).
//@harness name=calc_gv_uses_eligible_frames_only tier=quick label=bounded(5-frames,concrete-values) props=C12 timeout=900
//@harness name=conv_gv_rescales_eligible_frames_only tier=quick label=bounded(5-frames,concrete-values) props=C12 timeout=900
use super::*;

fn sqrt_stub(x: f64) -> f64 { if x == 4.0 { 2.0 } else { kani::any() } }

#[kani::proof]
#[kani::unwind(8)]
fn calc_gv_uses_eligible_frames_only() {
    let sw = [true, true, false, true, true];
    let g = MlpgGlobalVariance::new(MlpgMatrix::verif_dummy(1, 5), vec![0.0, 2.0, 99.0, 0.0, 2.0], &sw);
    let (mean, vari) = g.calc_gv();
    assert!(mean == 1.0 && vari == 1.0);
    kani::cover!(true);
    std::mem::forget(g);
}

#[kani::proof]
#[kani::unwind(8)]
#[kani::stub(f64::sqrt, sqrt_stub)]
fn conv_gv_rescales_eligible_frames_only() {
    let sw = [true, true, false, true, true];
    let mut g = MlpgGlobalVariance::new(MlpgMatrix::verif_dummy(1, 5), vec![0.0, 2.0, 99.0, 0.0, 2.0], &sw);
    g.conv_gv(4.0);
    // eligible frames are stretched about their mean to the target variance, the ineligible frame is untouched
    assert!(g.par.len() == 5 && g.par[0] == -1.0 && g.par[1] == 3.0 && g.par[2] == 99.0 && g.par[3] == -1.0 && g.par[4] == 3.0);
    let (mean, vari) = g.calc_gv();
    assert!(mean == 1.0 && vari == 4.0);
    kani::cover!(true);
    std::mem::forget(g);
}
