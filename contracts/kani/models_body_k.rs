//@attach src/model/mod.rs
// K-models-body: the REAL BODIES of Models::{duration, stream, gv}, cut from the tree under check on every
// run (BODY placeholders below), executed in a shim environment.  Calling the real functions needs Voice,
// jlabel::Label, Question and Cow values whose construction alone exceeds 10 minutes / 12 GB under CBMC
// (models_k.rs, kept unregistered).  The bodies only (a) pick a weight vector, (b) call
// `voices.weighted(weights, selector)` per label / state, (c) flatten in label-then-state order, (d) map a
// missing MSD weight to f64::MAX, (e) build the GV switch from `gv_off_context.test(label)`.  The shim gives
// each of those callees a light stand-in with the same names and shapes:
//   * labels are indices; a model is a table (state, label) -> ModelParameter with distinct concrete values;
//   * `weighted(w, sel)` returns `sel(voice)` with the identity of the weight vector `w` written into the
//     variance field, so the harness sees WHICH weights and WHICH model / state / label fed each output;
//   * the question is a table label -> bool.
// What the shim drops: tree search (units tree / K-model), interpolation arithmetic (unit interp, K-weighted),
// question matching (jlabel-question, external).  Labelled bounded (2 labels, 2 states, 3 streams).
// harness (NOT REGISTERED: flat_map + collect over Vec<MeanVari> exhaust 12 GB under CBMC even in the shim environment) name=duration_body_uses_duration_weights_in_order tier=quick label=bounded(2-labels,2-states,shim-environment) props=C10,C01 timeout=900
// harness (NOT REGISTERED: flat_map + collect over Vec<MeanVari> exhaust 12 GB under CBMC even in the shim environment) name=stream_body_states_weights_and_msd tier=quick label=bounded(2-labels,2-states,shim-environment) props=C10,C11,C01 timeout=900
// harness (NOT REGISTERED: flat_map + collect over Vec<MeanVari> exhaust 12 GB under CBMC even in the shim environment) name=gv_body_switch_weights_and_none tier=quick label=bounded(2-labels,2-states,shim-environment) props=C12,C10 timeout=900
// harness (NOT REGISTERED: even 1 label x 1 state reaches 12 GB in 4 minutes: flat_map + collect / slice::repeat) name=gv_body_which_weights_small tier=quick label=bounded(1-label,1-state,shim-environment) props=C10,C12 timeout=900
// harness (NOT REGISTERED: even 1 label x 1 state reaches 12 GB in 4 minutes: flat_map + collect / slice::repeat) name=duration_body_which_weights_small tier=quick label=bounded(1-label,1-state,shim-environment) props=C10 timeout=900
// harness (NOT REGISTERED: even 1 label x 1 state reaches 12 GB in 4 minutes: flat_map + collect / slice::repeat) name=stream_body_which_weights_small tier=quick label=bounded(1-label,1-state,shim-environment) props=C10,C11 timeout=900
use super::*;

pub struct SLabel(usize);
pub struct SModel { base: f64, nl: usize, msd: Option<f64>, table: Vec<ModelParameter> }
impl SModel {
    /// 2 labels x `ns` states (ns <= 2), literal tables (loops building them cost CBMC minutes)
    fn new(base: f64, ns: usize, nl: usize, width: usize, msd: Option<f64>) -> Self {
        let e = |l: usize, s: usize| ModelParameter {
            parameters: if width == 2 {
                vec![MeanVari(base + (100 * l + 10 * s) as f64, 1.0), MeanVari(base + (100 * l + 10 * s + 1) as f64, 1.0)]
            } else {
                vec![MeanVari(base + (100 * l + 10 * s) as f64, 1.0)]
            },
            msd,
        };
        let table = if ns == 2 { vec![e(0, 0), e(1, 0), e(0, 1), e(1, 1)] } else { vec![e(0, 0), e(1, 0)] };
        SModel { base, nl, msd, table }
    }
    fn get_parameter(&self, state_index: usize, label: &SLabel) -> &ModelParameter {
        &self.table[(state_index - 2) * self.nl + label.0]
    }
}
pub struct SStream { stream_model: SModel, gv_model: Option<SModel> }
pub struct SVoice { duration_model: SModel, stream_models: Vec<SStream> }
pub struct SQuestion(Vec<bool>);
impl SQuestion { fn test(&self, label: &SLabel) -> bool { self.0[label.0] } }
pub struct SGlobal { num_states: usize, gv_off_context: SQuestion }
pub struct SStreamMeta { use_gv: bool, vector_length: usize }
pub struct SW(f64);
pub struct SIW { d: SW, p: Vec<SW>, g: Vec<SW> }
impl SIW {
    fn get_duration(&self) -> &SW { &self.d }
    fn get_parameter(&self, i: usize) -> &SW { &self.p[i] }
    fn get_gv(&self, i: usize) -> &SW { &self.g[i] }
}
pub struct SVoices { voice: SVoice, g: SGlobal, sm: Vec<SStreamMeta> }
impl SVoices {
    fn global_metadata(&self) -> &SGlobal { &self.g }
    fn stream_metadata(&self, i: usize) -> &SStreamMeta { &self.sm[i] }
    /// the selected parameter, with the identity of the weight vector in every variance field
    fn weighted<F: Fn(&SVoice) -> &ModelParameter>(&self, weights: &SW, param: F) -> ModelParameter {
        let p = param(&self.voice);
        let mut parameters = Vec::new();
        let mut k = 0;
        while k < p.parameters.len() {
            parameters.push(MeanVari(p.parameters[k].0, weights.0));
            k += 1;
        }
        ModelParameter { parameters, msd: p.msd }
    }
}
pub struct SModels { labels: Vec<SLabel>, voices: SVoices, weights: SIW }
impl SModels {
    fn duration(&self) -> Vec<MeanVari>
    /*@BODY src/model/mod.rs :: impl Models :: fn duration@*/
    fn stream(&self, stream_index: usize) -> StreamParameter
    /*@BODY src/model/mod.rs :: impl Models :: fn stream@*/
    fn gv(&self, stream_index: usize) -> Option<GvParameter>
    /*@BODY src/model/mod.rs :: impl Models :: fn gv@*/
}

fn world(gv_off: Vec<bool>) -> SModels {
    // 2 labels, 2 states; stream 0: no MSD, GV; stream 1: MSD 0.75, GV; stream 2: no MSD, no GV
    let st = |base: f64, msd: Option<f64>, gv: Option<f64>| SStream {
        stream_model: SModel::new(base, 2, 2, 1, msd),
        gv_model: match gv { Some(b) => Some(SModel::new(b, 1, 2, 1, None)), None => None },
    };
    SModels {
        labels: vec![SLabel(0), SLabel(1)],
        voices: SVoices {
            voice: SVoice {
                duration_model: SModel::new(5000.0, 1, 2, 2, None),
                stream_models: vec![st(1000.0, None, Some(7000.0)), st(2000.0, Some(0.75), Some(8000.0)), st(3000.0, None, None)],
            },
            g: SGlobal { num_states: 2, gv_off_context: SQuestion(gv_off) },
            sm: vec![SStreamMeta { use_gv: true, vector_length: 1 }, SStreamMeta { use_gv: true, vector_length: 1 },
                     SStreamMeta { use_gv: false, vector_length: 1 }],
        },
        weights: SIW { d: SW(11.0), p: vec![SW(20.0), SW(21.0), SW(22.0)], g: vec![SW(30.0), SW(31.0), SW(32.0)] },
    }
}

/// C10 / C01: durations come from the duration model at state 2 of each label, combined with the DURATION
/// weights, nstate entries per label, labels in order
#[kani::proof]
#[kani::unwind(6)]
fn duration_body_uses_duration_weights_in_order() {
    let m = world(vec![false, false]);
    let d = m.duration();
    assert!(d.len() == 4);
    assert!(d[0].0 == 5000.0 && d[1].0 == 5001.0 && d[2].0 == 5100.0 && d[3].0 == 5101.0);
    assert!(d[0].1 == 11.0 && d[1].1 == 11.0 && d[2].1 == 11.0 && d[3].1 == 11.0);
    kani::cover!(true);
    std::mem::forget(m);
}

/// C10 / C11 / C01: stream i is built from stream model i with the PARAMETER weights of stream i, states
/// 2..2+nstate of each label in label-then-state order; an absent MSD weight becomes f64::MAX (always voiced),
/// a present one is passed through
#[kani::proof]
#[kani::unwind(6)]
fn stream_body_states_weights_and_msd() {
    let m = world(vec![false, false]);
    let s1 = m.stream(1);
    assert!(s1.len() == 4);
    assert!(s1[0].0.len() == 1 && s1[0].0[0].0 == 2000.0 && s1[1].0[0].0 == 2010.0
         && s1[2].0[0].0 == 2100.0 && s1[3].0[0].0 == 2110.0);
    assert!(s1[0].0[0].1 == 21.0 && s1[3].0[0].1 == 21.0);
    assert!(s1[0].1 == 0.75 && s1[1].1 == 0.75 && s1[2].1 == 0.75 && s1[3].1 == 0.75);
    let s2 = m.stream(2);
    assert!(s2.len() == 4 && s2[0].0[0].0 == 3000.0 && s2[3].0[0].0 == 3110.0 && s2[1].0[0].1 == 22.0);
    assert!(s2[0].1 == f64::MAX && s2[1].1 == f64::MAX && s2[2].1 == f64::MAX && s2[3].1 == f64::MAX);
    kani::cover!(true);
    std::mem::forget(m);
}

/// C12 / C10: no GV for a stream that does not use it; otherwise the GV statistics come from the GV model of
/// that stream (state 2, first label) with the GV weights of that stream, and the switch is off exactly for the
/// states of labels matching the GV-off context
#[kani::proof]
#[kani::unwind(6)]
fn gv_body_switch_weights_and_none() {
    let m = world(vec![true, false]);
    assert!(m.gv(2).is_none());
    let g = m.gv(1).unwrap();
    assert!(g.0.len() == 1 && g.0[0].0 == 8000.0 && g.0[0].1 == 31.0);
    assert!(g.1.len() == 4 && !g.1[0] && !g.1[1] && g.1[2] && g.1[3]);
    let g0 = m.gv(0).unwrap();
    assert!(g0.0[0].0 == 7000.0 && g0.0[0].1 == 30.0);
    kani::cover!(true);
    std::mem::forget(m);
}

/// the smallest world: 1 label, 1 state, 2 streams (stream 0: MSD 0.75 + GV, stream 1: no MSD, no GV)
fn small_world(gv_off: bool) -> SModels {
    let one = |v: f64, msd: Option<f64>| SModel { base: v, nl: 1, msd, table: vec![ModelParameter { parameters: vec![MeanVari(v, 1.0)], msd }] };
    SModels {
        labels: vec![SLabel(0)],
        voices: SVoices {
            voice: SVoice {
                duration_model: one(5000.0, None),
                stream_models: vec![SStream { stream_model: one(1000.0, Some(0.75)), gv_model: Some(one(7000.0, None)) },
                                    SStream { stream_model: one(2000.0, None), gv_model: None }],
            },
            g: SGlobal { num_states: 1, gv_off_context: SQuestion(vec![gv_off]) },
            sm: vec![SStreamMeta { use_gv: true, vector_length: 1 }, SStreamMeta { use_gv: false, vector_length: 1 }],
        },
        weights: SIW { d: SW(11.0), p: vec![SW(20.0), SW(21.0)], g: vec![SW(30.0), SW(31.0)] },
    }
}

/// C10 / C12: the GV statistics of stream i are combined with the GV weights of stream i (not the parameter or
/// duration weights), from the GV model; the switch is the negated GV-off test; no GV without use_gv
#[kani::proof]
#[kani::unwind(4)]
fn gv_body_which_weights_small() {
    let m = small_world(false);
    let g = m.gv(0).unwrap();
    assert!(g.0.len() == 1 && g.0[0].0 == 7000.0 && g.0[0].1 == 30.0);
    assert!(g.1.len() == 1 && g.1[0]);
    assert!(m.gv(1).is_none());
    kani::cover!(true);
    std::mem::forget(m);
    std::mem::forget(g);
}

/// C10: durations are combined with the DURATION weights, from the duration model at state 2
#[kani::proof]
#[kani::unwind(4)]
fn duration_body_which_weights_small() {
    let m = small_world(false);
    let d = m.duration();
    assert!(d.len() == 1 && d[0].0 == 5000.0 && d[0].1 == 11.0);
    kani::cover!(true);
    std::mem::forget(m);
}

/// C10 / C11: stream i is combined with the PARAMETER weights of stream i from stream model i; a present MSD
/// weight is passed through, an absent one becomes f64::MAX
#[kani::proof]
#[kani::unwind(4)]
fn stream_body_which_weights_small() {
    let m = small_world(false);
    let s0 = m.stream(0);
    assert!(s0.len() == 1 && s0[0].0.len() == 1 && s0[0].0[0].0 == 1000.0 && s0[0].0[0].1 == 20.0 && s0[0].1 == 0.75);
    let s1 = m.stream(1);
    assert!(s1.len() == 1 && s1[0].0[0].0 == 2000.0 && s1[0].0[0].1 == 21.0 && s1[0].1 == f64::MAX);
    kani::cover!(true);
    std::mem::forget(m);
}
