//@attach src/vocoder/cepstrum.rs
// K-mgc: the real gc2gc, gnorm and ignorm at the instance MelGeneralizedCepstrum on small exact inputs, against values
// computed over the rationals from the SPTK definitions (C13, mechanism level).  gamma = -1 and -1/2 with dyadic
// coefficients keep every intermediate exact; powf is stubbed by 1/x for exponent -1 (libm is not modelled by CBMC).
// The anchor-independent, bit-precise counterpart of Verus unit mgc.  Bounded (3 coefficients -> orders 2 and 3).
//@harness name=gc2gc_matches_the_definition tier=quick label=bounded(3-coefficients,orders-2-3,concrete-exact-values) props=C13 timeout=900
//@harness name=gnorm_ignorm_match_the_definition tier=quick label=bounded(3-coefficients,gamma=-1,concrete-exact-values) props=C13 timeout=900
use super::*;
use crate::vocoder::generalized::Generalized;

fn mgc(c: &[f64], gamma: f64) -> MelGeneralizedCepstrum { MelGeneralizedCepstrum { buffer: c.to_vec(), alpha: 0.0, gamma } }

#[kani::proof]
#[kani::unwind(8)]
fn gc2gc_matches_the_definition() {
    let c1 = mgc(&[1.0, 0.5, -0.25], -1.0);
    // same gamma, same order: the identity
    let same = c1.gc2gc(2, -1.0);
    assert!(same.len() == 3 && same[0] == 1.0 && same[1] == 0.5 && same[2] == -0.25 && same.gamma == -1.0);
    // gamma -1 -> -1/2, order 2 -> 3
    let c2 = c1.gc2gc(3, -0.5);
    assert!(c2.len() == 4 && c2[0] == 1.0 && c2[1] == 0.5 && c2[2] == -0.1875 && c2[3] == -0.046875 && c2.gamma == -0.5);
    kani::cover!(true);
}

/// powf on the few exact points the harnesses need (libm is not modelled by CBMC)
fn powf_minus_one(x: f64, y: f64) -> f64 {
    if y == -1.0 { 1.0 / x } else if y == -2.0 { 1.0 / (x * x) } else if x == 0.25 && y == -0.5 { 2.0 } else { kani::any() }
}

#[kani::proof]
#[kani::unwind(8)]
#[kani::stub(f64::powf, powf_minus_one)]
fn gnorm_ignorm_match_the_definition() {
    // gamma = -1: K = 1 + gamma c_0 = 2;  c'_0 = K^(1/gamma) = 1/2, c'_i = c_i / K
    let c = mgc(&[-1.0, 2.0, 4.0], -1.0);
    let n = c.gnorm();
    assert!(n.len() == 3 && n[0] == 0.5 && n[1] == 1.0 && n[2] == 2.0);
    // inverse: K = c_0^gamma = 2;  c'_0 = (K - 1)/gamma = -1, c'_i = c_i K
    let back = n.ignorm();
    assert!(back.len() == 3 && back[0] == -1.0 && back[1] == 2.0 && back[2] == 4.0);
    // gamma = -1/2 (stage 2), where 1/gamma and gamma differ: K = 1 + gamma c_0 = 2; c'_0 = K^(1/gamma) = 2^-2, c'_i = c_i / K
    let c2 = mgc(&[-2.0, 2.0, 4.0], -0.5);
    let n2 = c2.gnorm();
    assert!(n2.len() == 3 && n2[0] == 0.25 && n2[1] == 1.0 && n2[2] == 2.0);
    // inverse: K = c_0^gamma = 0.25^(-1/2) = 2; c'_0 = (K - 1)/gamma = -2, c'_i = c_i K
    let back2 = n2.ignorm();
    assert!(back2.len() == 3 && back2[0] == -2.0 && back2[1] == 2.0 && back2[2] == 4.0);
    kani::cover!(true);
}
