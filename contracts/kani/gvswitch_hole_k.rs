//@attach src/mlpg_adjust/mod.rs
// K-gvswitch: contract of the hole `gv_switch` of Verus unit gvpar (its text is pasted in by the overlay).
//@harness name=hole_gv_switch_contract tier=quick label=bounded(2-states,durations=[1,2],concrete) props=C12 timeout=600
use super::*;

/// hole `gv_switch` of Verus unit gvpar: the per-state GV switch expanded by the durations, then
/// restricted to the voiced frames
#[kani::proof]
#[kani::unwind(8)]
fn hole_gv_switch_contract() {
    // concrete switch values (symbolic ones time out: flat_map / repeat / take / filter_map chains)
    let sw: [bool; 2] = [true, false];
    let gv_switch: &Vec<bool> = &vec![sw[0], sw[1]];
    let durations: &[usize] = &[1, 2];
    let mask: Mask = [true, false, true].into_iter().collect();
    let msd_flag = &mask;
    let r: Vec<bool> = /*@HOLE gv_switch@*/;
    // frames: state0, state1, state1; the middle frame is unvoiced and dropped
    assert!(r.len() == 2);
    assert!(r[0] == sw[0] && r[1] == sw[1]);
    kani::cover!(true);
}
