//@attach src/model/parser/header/deserialize_hashmap.rs
// K-hashkey: the key-splitting statements of the header map visitor (C18: `NAME[SUB]` keys are sliced by the
// positions of '[' and ']').  The visitor itself runs inside serde; its statements between the `while let`
// header and the map insertion are cut from the text on every run (SLICE placeholder) and executed on every
// ASCII key of up to 5 bytes: no slice-index or char-boundary panic, and a key that is split is split into
// (text before the first '[', text between it and the final ']').  Bounded (key length <= 5, ASCII).
//@harness name=key_slicing_no_panic tier=quick label=bounded(key-length<=5,ascii) props=C18 timeout=900
use super::*;

fn split_key(key: &str) -> Option<(&str, &str)> {
    for _once in 0..1 {
        /*@SLICE src/model/parser/header/deserialize_hashmap.rs :: impl Visitor for StrMapVisitor :: fn visit_map :: from "map.next_entry::<&str, &str>()? {" to "result"@*/
        return Some((key_main, key_sub));
    }
    None
}

#[kani::proof]
#[kani::unwind(8)]
fn key_slicing_no_panic() {
    let bytes: [u8; 5] = kani::any();
    let n: usize = kani::any();
    kani::assume(n <= 5);
    let mut i = 0;
    while i < 5 { kani::assume(bytes[i] < 128); i += 1; }
    let key = unsafe { std::str::from_utf8_unchecked(&bytes[..n]) };
    match split_key(key) {
        Some((main, sub)) => {
            assert!(n >= 2 && bytes[n - 1] == b']');
            assert!(main.len() + sub.len() + 2 == n);
            assert!(bytes[main.len()] == b'[');
        }
        None => {}
    }
    kani::cover!(n == 5 && bytes[2] == b'[' && bytes[4] == b']');
}
