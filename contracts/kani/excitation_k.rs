//@attach src/vocoder/excitation.rs
// K-exc: excitation generator (C07, C11 noise branch).  libm sqrt is an uninterpreted function.
//@harness name=get_voiced_step tier=quick label=proved props=C07 timeout=600
//@harness name=get_unvoiced_is_noise tier=quick label=proved props=C07,C11 timeout=600
//@harness name=start_resets_or_glides tier=quick label=proved props=C07 timeout=600
//@harness name=end_sets_pitch tier=quick label=proved props=C07
//@harness name=rnd_range_and_lcg tier=quick label=proved props=C07 timeout=600
//@harness name=mseq_step tier=quick label=proved props=C07
//@harness name=new_is_fixed_seed tier=quick label=bounded(nlpf<=3) props=C07
//@harness name=new_ring_has_nlpf_slots tier=quick label=bounded(nlpf<=3) props=C01,C07
//@harness name=ring_buffer_step_asymmetric_lpf tier=quick label=bounded(nlpf=3,concrete-asymmetric-filter) props=C07 timeout=600
//@harness name=ring_buffer_step_idx0 tier=thorough label=bounded(nlpf=3) props=C07 timeout=600
//@harness name=ring_buffer_step_idx2 tier=thorough label=bounded(nlpf=3) props=C07 timeout=600
use super::*;

// ASSUMED: sqrt returns a finite non-negative value (CBMC's libm models are not usable, P3)
fn uf_sqrt(_x: f64) -> f64 {
    let r: f64 = kani::any();
    kani::assume(r >= 0.0 && r.is_finite());
    r
}

fn any_exc0() -> Excitation {
    let mut e = Excitation::new(0);
    e.pitch_of_curr_point = kani::any();
    e.pitch_counter = kani::any();
    e.pitch_inc_per_point = kani::any();
    e
}

/// voiced, constant period T0 (2 <= T0 <= 4800, i.e. F0 <= rate/2), no low-pass stream: one sample.
/// The pitch counter advances by one; when it reaches T0 a pulse of height sqrt(T0) is emitted and the
/// counter keeps the fractional remainder, so consecutive pulses are floor(T0) or ceil(T0) apart;
/// 0 <= counter < T0 is invariant.
#[kani::proof]
#[kani::stub(f64::sqrt, uf_sqrt)]
fn get_voiced_step() {
    let mut e = any_exc0();
    let t0 = e.pitch_of_curr_point;
    let c = e.pitch_counter;
    kani::assume(t0 >= 2.0 && t0 <= 4800.0);
    kani::assume(e.pitch_inc_per_point == 0.0);
    kani::assume(c >= 0.0 && c < t0);
    let x = e.get(&[]);
    assert!(e.pitch_counter >= 0.0 && e.pitch_counter < t0);
    assert!(e.pitch_of_curr_point == t0);
    if c + 1.0 >= t0 {
        assert!(e.pitch_counter == c + 1.0 - t0);   // pulse sample: x = sqrt(T0) (uninterpreted)
    } else {
        assert!(x == 0.0 && e.pitch_counter == c + 1.0);
    }
    kani::cover!(c + 1.0 >= t0);
}

/// unvoiced (period 0), no low-pass stream: the sample is the noise generator's output and the
/// pitch state is untouched
#[kani::proof]
#[kani::unwind(3)]
#[kani::stub(f64::sqrt, uf_sqrt)]
#[kani::stub(f64::ln, uf_sqrt)]
fn get_unvoiced_is_noise() {
    let mut e = any_exc0();
    kani::assume(e.pitch_of_curr_point == 0.0);
    let c = e.pitch_counter;
    e.gauss = false;              // M-sequence noise: +1 / -1, loop-free
    e.mseq.x = kani::any();
    let mut reference = e.mseq.clone();
    let x = e.get(&[]);
    assert!(x == reference.next() as f64);
    assert!(x == 1.0 || x == -1.0);
    assert!(e.pitch_of_curr_point == 0.0 && e.pitch_counter.to_bits() == c.to_bits());
    kani::cover!(x == 1.0);
}

/// frame start: voiced -> voiced glides linearly ((p - prev)/fperiod per sample, checked through the
/// dataflow only: the quotient of two symbolic doubles is intractable, P9); otherwise the counter
/// and the period are reset to p and the increment is 0
#[kani::proof]
fn start_resets_or_glides() {
    let mut e = any_exc0();
    let before = e.clone();
    let p: f64 = kani::any();
    let fperiod: usize = kani::any();
    kani::assume(!p.is_nan() && !before.pitch_of_curr_point.is_nan());
    e.start(p, fperiod);
    if before.pitch_of_curr_point != 0.0 && p != 0.0 {
        assert!(e.pitch_of_curr_point.to_bits() == before.pitch_of_curr_point.to_bits());
        assert!(e.pitch_counter.to_bits() == before.pitch_counter.to_bits());
    } else {
        assert!(e.pitch_inc_per_point == 0.0);
        assert!(e.pitch_of_curr_point.to_bits() == p.to_bits() && e.pitch_counter.to_bits() == p.to_bits());
    }
    kani::cover!(before.pitch_of_curr_point != 0.0 && p != 0.0);
}

#[kani::proof]
fn end_sets_pitch() {
    let mut e = any_exc0();
    let c = e.pitch_counter;
    let p: f64 = kani::any();
    e.end(p);
    assert!(e.pitch_of_curr_point.to_bits() == p.to_bits());
    assert!(e.pitch_counter.to_bits() == c.to_bits());
}

/// the uniform generator is the LCG next = next*1103515245 + 12345 and yields values in [0, 1]
#[kani::proof]
fn rnd_range_and_lcg() {
    let mut r = Random::new();
    r.next = kani::any();
    let old = r.next;
    let v = r.rnd();
    assert!(v >= 0.0 && v <= 1.0);
    assert!(r.next == old.wrapping_mul(1103515245).wrapping_add(12345));
}

/// the M-sequence step: shift right, output +-1 from bit 0, feed back bit0 xor bit28 into bit 31
#[kani::proof]
fn mseq_step() {
    let mut m = Mseq::new();
    m.x = kani::any();
    let old = m.x;
    let out = m.next();
    let s = old >> 1;
    let b0 = s & 1;
    let b28 = (s >> 28) & 1;
    assert!(out == if b0 != 0 { 1 } else { -1 });
    assert!(m.x & 0x7fff_ffff == s & 0x7fff_ffff);
    assert!((m.x >> 31) == (b0 ^ b28));
}

/// every vocoder starts from the same noise state (fixed seed) and a zeroed ring buffer
#[kani::proof]
#[kani::unwind(5)]
fn new_is_fixed_seed() {
    let n: usize = kani::any();
    kani::assume(n <= 3);
    let e = Excitation::new(n);
    assert!(e.random.next == 1 && !e.random.sw);
    assert!(e.mseq.x == 0x5555_5555);
    assert!(e.gauss);
    assert!(e.pitch_of_curr_point == 0.0 && e.pitch_counter == 0.0 && e.pitch_inc_per_point == 0.0);
    assert!(e.ring_buffer.len() == n && e.ring_buffer.index == 0);
    kani::cover!(n == 3);
}

/// mixed excitation, one sample, low-pass h of length 3 (centre 1): slot (index+i) gains
/// noise*(delta(i,1) - h[i]) + pulse*h[i]; the oldest slot is output and cleared; index advances
fn ring_buffer_step(idx: usize) { ring_buffer_step_with(idx, kani::any()); }
fn ring_buffer_step_with(idx: usize, h: [f64; 3]) {
    let mut e = Excitation::new(3);
    let buf: [f64; 3] = kani::any();
    e.ring_buffer.buffer = vec![buf[0], buf[1], buf[2]];
    e.ring_buffer.index = idx;
    e.gauss = false;
    let mut reference = e.mseq.clone();
    let noise = reference.next() as f64;
    // voiced, no pulse on this sample
    e.pitch_of_curr_point = 100.0;
    e.pitch_counter = 5.0;
    e.pitch_inc_per_point = 0.0;
    let x = e.get(&h);
    assert!(e.ring_buffer.index == (idx + 1) % 3);
    assert!(e.pitch_counter == 6.0);
    // output = oldest slot after its update; that slot is then cleared
    let upd = |i: usize| -> f64 { buf[(idx + i) % 3] + noise * ((if i == 1 { 1.0 } else { 0.0 }) - h[i]) };
    assert!(x.to_bits() == upd(0).to_bits() || (x.is_nan() && upd(0).is_nan()));
    assert!(e.ring_buffer.buffer[idx] == 0.0);
    let s1 = e.ring_buffer.buffer[(idx + 1) % 3];
    let s2 = e.ring_buffer.buffer[(idx + 2) % 3];
    assert!(s1.to_bits() == upd(1).to_bits() || (s1.is_nan() && upd(1).is_nan()));
    assert!(s2.to_bits() == upd(2).to_bits() || (s2.is_nan() && upd(2).is_nan()));
    kani::cover!(true);
}
#[kani::proof]
#[kani::unwind(5)]
#[kani::stub(f64::sqrt, uf_sqrt)]
fn ring_buffer_step_idx0() { ring_buffer_step(0); }
/// same with the write position wrapping around the end of the buffer
#[kani::proof]
#[kani::unwind(5)]
#[kani::stub(f64::sqrt, uf_sqrt)]
fn ring_buffer_step_idx2() { ring_buffer_step(2); }

/// the quick-tier counterpart: a concrete filter that is NOT mirror-symmetric (tap i shapes slot index+i, not
/// slot index+len-1-i), every buffer content, write position 1
#[kani::proof]
#[kani::unwind(5)]
#[kani::stub(f64::sqrt, uf_sqrt)]
fn ring_buffer_step_asymmetric_lpf() { ring_buffer_step_with(1, [0.25, 0.5, 0.125]); }

/// the ring buffer has exactly nlpf slots (C01: a two-stream voice has nlpf == 0 and must take the no-low-pass path
/// of `get`, which never indexes the empty low-pass row; with more slots than taps `voiced_frame` indexes past the row).
/// Only the size is asserted here, so that a change to the noise seed is not reported under C01.
#[kani::proof]
#[kani::unwind(5)]
fn new_ring_has_nlpf_slots() {
    let n: usize = kani::any();
    kani::assume(n <= 3);
    let e = Excitation::new(n);
    assert!(e.ring_buffer.len() == n);
    kani::cover!(n == 0);
    kani::cover!(n == 3);
}
