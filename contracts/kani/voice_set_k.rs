//@attach src/model/voice_set.rs
//@needs model_k
// K-vset: VoiceSet::new validation (C19) and VoiceSet::weighted / which-weights (C10).
//@harness name=voiceset_new_empty tier=quick label=proved props=C19
//@harness name=hole_streams_all_eq_contract tier=quick label=bounded(1-2-streams) props=C19 timeout=600
//@harness name=voiceset_new_single tier=quick label=bounded(1-voice) props=C19
// harness (NOT REGISTERED: exhausts 12 GB under CBMC even with concrete values) name=weighted_pairs_voices_with_weights tier=quick label=bounded(2-voices,concrete-values) props=C10 timeout=600
// harness (NOT REGISTERED: derived PartialEq of the Voice metadata does not terminate under CBMC; the clause is proved by Verus unit voiceset) name=voiceset_new_global_metadata tier=thorough label=bounded(2-voices) props=C19 timeout=3000
// harness (NOT REGISTERED: derived PartialEq of the Voice metadata does not terminate under CBMC; the clause is proved by Verus unit voiceset) name=voiceset_new_stream_metadata tier=thorough label=bounded(2-voices,1-stream) props=C19 timeout=3000
// harness (NOT REGISTERED: two Arc<Voice> + the map/zip fold of weighted exhaust 12 GB under CBMC) name=weighted_vertex_reproduces_first tier=quick label=bounded(2-voices,vector=1) props=C10 timeout=600
// harness (NOT REGISTERED: two Arc<Voice> + the map/zip fold of weighted exhaust 12 GB under CBMC) name=weighted_exact_constants tier=quick label=bounded(2-voices,vector=1) props=C10 timeout=600
// harness (NOT REGISTERED: two Arc<Voice> + the map/zip fold of weighted exhaust 12 GB under CBMC) name=weighted_identical_voices tier=quick label=bounded(2-voices,vector=1) props=C10 timeout=600
use super::*;
use crate::model::voice::{model::Model, question::Question, tree::{Tree, TreeNode}, window::{Window, Windows},
    GlobalModelMetadata, StreamModelMetadata, StreamModels};
use crate::model::MeanVari;

fn question() -> Question {
    Question::AllQustion(jlabel_question::AllQuestion::Undefined(jlabel_question::Question {
        position: jlabel_question::position::UndefinedPotision::E4, range: None }))
}
fn leaf_model(p: ModelParameter) -> Model {
    Model::new(vec![Tree { state: 2, nodes: vec![TreeNode::Leaf { pdf_index: 1 }] }], vec![vec![p]])
}
fn voice(sf: usize, fp: usize, ns: usize, nstream: usize, streams: Vec<StreamModels>, p: ModelParameter) -> Voice {
    Voice {
        metadata: GlobalModelMetadata {
            hts_voice_version: String::new(), sampling_frequency: sf, frame_period: fp, num_states: ns,
            num_streams: nstream, stream_type: vec![], fullcontext_format: String::new(), fullcontext_version: String::new(),
            gv_off_context: question() },
        duration_model: leaf_model(p),
        stream_models: streams,
    }
}
fn zero_param() -> ModelParameter { ModelParameter { parameters: vec![MeanVari(0.0, 0.0)], msd: None } }
fn any_param() -> ModelParameter {
    ModelParameter { parameters: vec![MeanVari(kani::any(), kani::any())], msd: Some(kani::any()) }
}

#[kani::proof]
#[kani::unwind(3)]
fn voiceset_new_empty() {
    let r = VoiceSet::new(vec![]);
    assert!(matches!(r, Err(ModelError::EmptyVoice)));
    std::mem::forget(r);
}

/// a single voice is always accepted, whatever its metadata
#[kani::proof]
#[kani::unwind(4)]
fn voiceset_new_single() {
    let a: [usize; 4] = kani::any();
    let a0 = Arc::new(voice(a[0], a[1], a[2], a[3], vec![], zero_param()));
    let keep = a0.clone();
    let r = VoiceSet::new(vec![a0]);
    assert!(r.is_ok());
    std::mem::forget(r);
    std::mem::forget(keep);
}

/// two voices whose global metadata fields are symbolic: accepted iff all of them agree
#[kani::proof]
#[kani::unwind(4)]
fn voiceset_new_global_metadata() {
    let a: [usize; 4] = kani::any();
    let b: [usize; 4] = kani::any();
    let v0 = voice(a[0], a[1], a[2], a[3], vec![], zero_param());
    let v1 = voice(b[0], b[1], b[2], b[3], vec![], zero_param());
    // keep a second handle on each voice so that dropping the rejected list inside `new` only
    // decrements a reference count (the drop glue of Voice drags in the regex crate and is
    // intractable for CBMC); everything is forgotten at the end for the same reason
    let (a0, a1) = (Arc::new(v0), Arc::new(v1));
    let keep = (a0.clone(), a1.clone());
    let r = VoiceSet::new(vec![a0, a1]);
    let same = a[0] == b[0] && a[1] == b[1] && a[2] == b[2] && a[3] == b[3];
    match &r {
        Ok(vs) => { assert!(same); assert!(vs.len() == 2); }
        Err(ModelError::MetadataError) => assert!(!same),
        Err(_) => assert!(false),
    }
    kani::cover!(same);
    std::mem::forget(r);
    std::mem::forget(keep);
}

fn stream(vl: usize, nw: usize, msd: bool, gv: bool, opt: bool) -> StreamModels {
    StreamModels::new(
        StreamModelMetadata { vector_length: vl, num_windows: nw, is_msd: msd, use_gv: gv,
            option: if opt { vec![String::from("A")] } else { vec![] } },
        leaf_model(zero_param()), None, Windows::new(vec![Window::new(vec![1.0])]))
}

/// per-stream metadata (vector length, windows, MSD flag, GV flag, option list) must agree;
/// a different number of streams is rejected too
#[kani::proof]
#[kani::unwind(4)]
fn voiceset_new_stream_metadata() {
    let a: (usize, usize, bool, bool, bool) = kani::any();
    let b: (usize, usize, bool, bool, bool) = kani::any();
    let extra: bool = kani::any();
    let s0 = vec![stream(a.0, a.1, a.2, a.3, a.4)];
    let mut s1 = vec![stream(b.0, b.1, b.2, b.3, b.4)];
    if extra { s1.push(stream(1, 1, false, false, false)); }
    let v0 = voice(1, 1, 1, 1, s0, zero_param());
    let v1 = voice(1, 1, 1, 1, s1, zero_param());
    let (a0, a1) = (Arc::new(v0), Arc::new(v1));
    let keep = (a0.clone(), a1.clone());
    let r = VoiceSet::new(vec![a0, a1]);
    let same = a.0 == b.0 && a.1 == b.1 && a.2 == b.2 && a.3 == b.3 && a.4 == b.4 && !extra;
    match &r {
        Ok(_) => assert!(same),
        Err(ModelError::MetadataError) => assert!(!same),
        Err(_) => assert!(false),
    }
    kani::cover!(same);
    std::mem::forget(r);
    std::mem::forget(keep);
}

// built directly (not through VoiceSet::new): the derived PartialEq of the voice metadata is
// intractable for CBMC even on concrete values (>10 min), see DESIGN.md
fn two_voice_set(p0: ModelParameter, p1: ModelParameter) -> VoiceSet {
    VoiceSet(vec![Arc::new(voice(1, 1, 1, 0, vec![], p0)), Arc::new(voice(1, 1, 1, 0, vec![], p1))])
}
fn pdf0(v: &Arc<Voice>) -> &ModelParameter { v.duration_model.get_pdf0() }

/// C10: weights (1, 0) reproduce the first voice exactly, for all finite parameter values
#[kani::proof]
#[kani::unwind(4)]
fn weighted_vertex_reproduces_first() {
    let p0 = any_param();
    let p1 = any_param();
    let (m0, v0, s0) = (p0.parameters[0].0, p0.parameters[0].1, p0.msd.unwrap());
    let (m1, v1, s1) = (p1.parameters[0].0, p1.parameters[0].1, p1.msd.unwrap());
    kani::assume(m1.is_finite() && v1.is_finite() && s1.is_finite());
    kani::assume(!m0.is_nan() && !v0.is_nan() && !s0.is_nan());
    let vs = two_voice_set(p0, p1);
    let weights = Weights::new(&[1.0, 0.0]).unwrap();
    let r = vs.weighted(&weights, pdf0);
    assert!(r.parameters.len() == 1);
    assert!(r.parameters[0].0 == m0 && r.parameters[0].1 == v0 && r.msd == Some(s0));
    kani::cover!(m0 > 1.0);
    std::mem::forget(vs);
}

fn weighted_exact(w: [f64; 2]) {
    let p0 = any_param();
    let p1 = any_param();
    let (m0, v0, s0) = (p0.parameters[0].0, p0.parameters[0].1, p0.msd.unwrap());
    let (m1, v1, s1) = (p1.parameters[0].0, p1.parameters[0].1, p1.msd.unwrap());
    kani::assume(!m0.is_nan() && !v0.is_nan() && !s0.is_nan() && !m1.is_nan() && !v1.is_nan() && !s1.is_nan());
    let vs = two_voice_set(p0, p1);
    let weights = Weights::new(&w).unwrap();
    let r = vs.weighted(&weights, pdf0);
    assert!(r.parameters[0].0.to_bits() == (m0 * w[0] + w[1] * m1).to_bits());
    assert!(r.parameters[0].1.to_bits() == (v0 * w[0] + w[1] * v1).to_bits());
    assert!(r.msd.unwrap().to_bits() == (w[0] * s0 + w[1] * s1).to_bits());
    std::mem::forget(vs);
}
/// C10: for weight vectors whose products are exact (powers of two), the result is bit-exactly
/// sum_v w_v * p_v, in voice order, for all parameter values (NaN excluded); weights are constants in
/// every call (a symbolically selected weight is a symbolic multiplicand)
#[kani::proof]
#[kani::unwind(4)]
fn weighted_exact_constants() {
    weighted_exact([0.5, 0.5]);
    weighted_exact([2.0, -1.0]);
    weighted_exact([0.0, 1.0]);
    kani::cover!(true);
}

/// C10: blending two identical voices with (0.5, 0.5) reproduces the voice exactly
#[kani::proof]
#[kani::unwind(4)]
fn weighted_identical_voices() {
    let m: f64 = kani::any();
    let v: f64 = kani::any();
    let s: f64 = kani::any();
    kani::assume(m.is_finite() && v.is_finite() && s.is_finite());
    kani::assume(m.abs() <= 1.0e300 && v.abs() <= 1.0e300 && m.abs() >= 1.0e-300 && v.abs() >= 1.0e-300 && s.abs() >= 1.0e-300);
    let p = ModelParameter { parameters: vec![MeanVari(m, v)], msd: Some(s) };
    let vs = two_voice_set(p.clone(), p);
    let weights = Weights::new(&[0.5, 0.5]).unwrap();
    let r = vs.weighted(&weights, pdf0);
    assert!(r.parameters[0].0 == m && r.parameters[0].1 == v && r.msd == Some(s));
    kani::cover!(true);
    std::mem::forget(vs);
}

struct ShimVoice { stream_models: Vec<StreamModels> }

/// hole `streams_all_eq` of Verus unit voiceset (the zip/all chain of VoiceSet::new), pasted verbatim:
/// true iff the per-stream metadata agree pairwise over the common prefix
#[kani::proof]
#[kani::unwind(5)]
fn hole_streams_all_eq_contract() {
    let a: (usize, usize, bool, bool, bool) = kani::any();
    let b: (usize, usize, bool, bool, bool) = kani::any();
    let c: (usize, bool) = kani::any();
    let d: (usize, bool) = kani::any();
    let voice = ShimVoice { stream_models: vec![stream(a.0, a.1, a.2, a.3, a.4), stream(c.0, 1, c.1, false, false)] };
    let first = ShimVoice { stream_models: vec![stream(b.0, b.1, b.2, b.3, b.4), stream(d.0, 1, d.1, false, false)] };
    // the hole is the whole `if` condition, negation included: true iff some stream's metadata differ
    let r: bool = /*@HOLE streams_all_eq@*/;
    assert!(r == !(a == b && c == d));
    kani::cover!(!r);
    kani::cover!(a == b && c != d);
    std::mem::forget(voice);
    std::mem::forget(first);
}

impl VoiceSet {
    /// harness-only constructor that bypasses the metadata comparison of VoiceSet::new
    /// (intractable for CBMC); exists only under cfg(kani)
    pub(crate) fn verif_from(voices: Vec<Arc<Voice>>) -> Self { VoiceSet(voices) }
}

/// C10, VoiceSet::weighted: voice v is paired with weight v, in order, including zero and negative
/// weights (concrete values: with symbolic ones the harness exhausts 12 GB).
#[kani::proof]
#[kani::unwind(4)]
fn weighted_pairs_voices_with_weights() {
    let p0 = ModelParameter { parameters: vec![MeanVari(3.0, 1.0)], msd: Some(0.5) };
    let p1 = ModelParameter { parameters: vec![MeanVari(5.0, 2.0)], msd: Some(0.25) };
    let vs = two_voice_set(p0, p1);
    let w = Weights::new(&[1.5, -0.5]).unwrap();
    let r = vs.weighted(&w, pdf0);
    assert!(r.parameters.len() == 1);
    assert!(r.parameters[0].0 == 3.0 * 1.5 + -0.5 * 5.0 && r.parameters[0].1 == 1.0 * 1.5 + -0.5 * 2.0);
    assert!(r.msd == Some(1.5 * 0.5 + -0.5 * 0.25));
    let w2 = Weights::new(&[0.0, 1.0]).unwrap();
    let r2 = vs.weighted(&w2, pdf0);
    assert!(r2.parameters[0].0 == 5.0 && r2.parameters[0].1 == 2.0 && r2.msd == Some(0.25));
    kani::cover!(true);
    std::mem::forget(vs);
}
