//@attach src/model/voice/model.rs
// K-model: ModelParameter::{mul, mul_add_assign, from_linear} and a crate-visible accessor
// used by harnesses in other modules.
//@harness name=mul_add_exact_unit tier=quick label=bounded(vector=1,weights=(1,0)) props=C10
//@harness name=mul_add_exact_half tier=thorough label=bounded(vector=1,weights=(.5,.5)) props=C10 timeout=1200
//@harness name=mul_add_exact_extrapolate tier=thorough label=bounded(vector=1,weights=(2,-1)) props=C10 timeout=900
//@harness name=mul_unit_weight_identity tier=quick label=bounded(vector=2) props=C10
//@harness name=mul_add_msd_presence tier=quick label=bounded(vector=1) props=C10
//@harness name=from_linear_split tier=quick label=bounded(len<=5) props=C04
//@harness name=hole_mul_params_contract tier=quick label=bounded(vector=2) props=C10 timeout=600
//@harness name=find_tree_index_is_first_match tier=quick label=bounded(trees=3) props=C04 timeout=600
//@harness name=get_index_uses_tree_state tier=quick label=bounded(trees=2,single-leaf) props=C04 timeout=600
use super::*;

impl Model {
    /// harness-only accessor (exists only under cfg(kani))
    pub(crate) fn get_pdf0(&self) -> &ModelParameter {
        &self.pdf[0][0]
    }
}

fn mul_add_exact(w: [f64; 2]) {
    let (m0, v0, s0): (f64, f64, f64) = kani::any();
    let (m1, v1, s1): (f64, f64, f64) = kani::any();
    kani::assume(!m0.is_nan() && !v0.is_nan() && !s0.is_nan() && !m1.is_nan() && !v1.is_nan() && !s1.is_nan());
    let p0 = ModelParameter { parameters: vec![MeanVari(m0, v0)], msd: Some(s0) };
    let p1 = ModelParameter { parameters: vec![MeanVari(m1, v1)], msd: Some(s1) };
    let mut r = p0.mul(w[0]);
    r.mul_add_assign(w[1], &p1);
    assert!(r.parameters.len() == 1);
    assert!(r.parameters[0].0.to_bits() == (m0 * w[0] + w[1] * m1).to_bits());
    assert!(r.parameters[0].1.to_bits() == (v0 * w[0] + w[1] * v1).to_bits());
    assert!(r.msd.unwrap().to_bits() == (w[0] * s0 + w[1] * s1).to_bits());
}
/// weight constants whose products are exact: result is bit-exactly p0*w0 + w1*p1 for all parameter
/// values.  The weights are compile-time constants in every call (a weight selected by a symbolic
/// index is a symbolic multiplicand: 12 GB under CBMC).
#[kani::proof]
#[kani::unwind(3)]
fn mul_add_exact_unit() { mul_add_exact([1.0, 0.0]); kani::cover!(true); }
#[kani::proof]
#[kani::unwind(3)]
fn mul_add_exact_half() { mul_add_exact([0.5, 0.5]); kani::cover!(true); }
#[kani::proof]
#[kani::unwind(3)]
fn mul_add_exact_extrapolate() { mul_add_exact([2.0, -1.0]); kani::cover!(true); }

/// weight 1 then weight 0: the first parameter set comes back unchanged (vector of 2)
#[kani::proof]
#[kani::unwind(4)]
fn mul_unit_weight_identity() {
    let a: [f64; 4] = kani::any();
    let b: [f64; 4] = kani::any();
    kani::assume(b[0].is_finite() && b[1].is_finite() && b[2].is_finite() && b[3].is_finite());
    kani::assume(!a[0].is_nan() && !a[1].is_nan() && !a[2].is_nan() && !a[3].is_nan());
    let p0 = ModelParameter { parameters: vec![MeanVari(a[0], a[1]), MeanVari(a[2], a[3])], msd: None };
    let p1 = ModelParameter { parameters: vec![MeanVari(b[0], b[1]), MeanVari(b[2], b[3])], msd: None };
    let mut r = p0.mul(1.0);
    r.mul_add_assign(0.0, &p1);
    assert!(r.parameters.len() == 2);
    assert!(r.parameters[0].0 == a[0] && r.parameters[0].1 == a[1]);
    assert!(r.parameters[1].0 == a[2] && r.parameters[1].1 == a[3]);
    assert!(r.msd.is_none());
    kani::cover!(true);
}

/// the voicing weight is present in the blend iff it is present in the first voice
#[kani::proof]
#[kani::unwind(3)]
fn mul_add_msd_presence() {
    let has0: bool = kani::any();
    let has1: bool = kani::any();
    let w: [f64; 2] = kani::any();
    let p0 = ModelParameter { parameters: vec![MeanVari(kani::any(), kani::any())], msd: if has0 { Some(kani::any()) } else { None } };
    let p1 = ModelParameter { parameters: vec![MeanVari(kani::any(), kani::any())], msd: if has1 { Some(kani::any()) } else { None } };
    let mut r = p0.mul(w[0]);
    r.mul_add_assign(w[1], &p1);
    assert!(r.msd.is_some() == has0);
    assert!(r.parameters.len() == 1);
    kani::cover!(has0 && !has1);
}

fn from_linear_for(n: usize) {
    let a: [f64; 5] = kani::any();
    let lin: Vec<f64> = a[..n].to_vec();
    let p = ModelParameter::from_linear(lin);
    let k = n / 2;
    assert!(p.parameters.len() == k);
    let mut j = 0;
    while j < k {
        assert!(p.parameters[j].0.to_bits() == a[j].to_bits());
        assert!(p.parameters[j].1.to_bits() == a[j + k].to_bits());
        j += 1;
    }
    if n % 2 == 1 { assert!(p.msd.unwrap().to_bits() == a[2 * k].to_bits()); } else { assert!(p.msd.is_none()); }
}
/// C04: a PDF row [m_0..m_{k-1}, v_0..v_{k-1}, (msd)] splits into k (mean, variance) pairs and the
/// optional voicing weight; every row length 0..5 (concrete lengths: a symbolic-length Vec is intractable)
#[kani::proof]
#[kani::unwind(7)]
fn from_linear_split() {
    from_linear_for(0);
    from_linear_for(1);
    from_linear_for(2);
    from_linear_for(3);
    from_linear_for(4);
    from_linear_for(5);
    kani::cover!(true);
}

fn leaf_tree(state: usize, pdf_index: usize) -> Tree {
    Tree { state, nodes: vec![crate::model::voice::tree::TreeNode::Leaf { pdf_index }] }
}

/// contracted callee of Verus unit `tree`: the index of the FIRST tree whose declared state equals
/// the requested one, None if there is none (trees are not assumed to be listed in state order)
#[kani::proof]
#[kani::unwind(6)]
fn find_tree_index_is_first_match() {
    let st: [usize; 3] = kani::any();
    let want: usize = kani::any();
    let m = Model::new(vec![leaf_tree(st[0], 1), leaf_tree(st[1], 1), leaf_tree(st[2], 1)], vec![]);
    let r = m.find_tree_index(want);
    let expect = if st[0] == want { Some(0) } else if st[1] == want { Some(1) } else if st[2] == want { Some(2) } else { None };
    assert!(r == expect);
    kani::cover!(r == Some(2));
    std::mem::forget(m);
}

fn any_label() -> Label {
    use jlabel::*;
    Label {
        phoneme: Phoneme { p2: None, p1: None, c: None, n1: None, n2: None },
        mora: None, word_prev: None, word_curr: None, word_next: None,
        accent_phrase_prev: None, accent_phrase_curr: None, accent_phrase_next: None,
        breath_group_prev: None, breath_group_curr: None, breath_group_next: None,
        utterance: Utterance { breath_group_count: 1, accent_phrase_count: 1, mora_count: 1 },
    }
}

/// paired API-level form: with two single-leaf trees in arbitrary state order, get_index reports
/// (position of the matching tree + 2, that tree's leaf)
#[kani::proof]
#[kani::unwind(6)]
fn get_index_uses_tree_state() {
    let st: [usize; 2] = kani::any();
    let want: usize = kani::any();
    kani::assume(st[0] != st[1]);
    let m = Model::new(vec![leaf_tree(st[0], 7), leaf_tree(st[1], 9)], vec![]);
    let label = any_label();
    let (t, p) = m.get_index(want, &label);
    if want == st[0] { assert!(t == Some(2) && p == Some(7)); }
    else if want == st[1] { assert!(t == Some(3) && p == Some(9)); }
    else { assert!(t.is_none()); }
    kani::cover!(want == st[1]);
    std::mem::forget(m);
    std::mem::forget(label);
}

impl ModelParameter {
    /// hole `mul_params` of Verus unit interp, pasted verbatim
    fn verif_mul_params(&self, weight: f64) -> Vec<MeanVari> {
        let parameters: Vec<MeanVari> = /*@HOLE mul_params@*/;
        parameters
    }
}

fn mul_params_scaled(w: f64) {
    let a: [f64; 4] = kani::any();
    let p = ModelParameter { parameters: vec![MeanVari(a[0], a[1]), MeanVari(a[2], a[3])], msd: None };
    let r = p.verif_mul_params(w);
    assert!(r.len() == 2);
    assert!(r[0].0.to_bits() == (a[0] * w).to_bits() && r[0].1.to_bits() == (a[1] * w).to_bits());
    assert!(r[1].0.to_bits() == (a[2] * w).to_bits() && r[1].1.to_bits() == (a[3] * w).to_bits());
}
/// the iterator chain of ModelParameter::mul scales every (mean, variance) pair by the weight, in order
#[kani::proof]
#[kani::unwind(5)]
fn hole_mul_params_contract() {
    mul_params_scaled(0.5);
    mul_params_scaled(2.0);
    mul_params_scaled(-1.0);
    mul_params_scaled(0.0);
    kani::cover!(true);
}
