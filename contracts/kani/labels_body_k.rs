//@attach src/label.rs
// K-labels-body: the REAL BODY of Labels::new (C09: "end time known - given directly or inherited from the next
// label's start"; C17: labels without times get (-1, -1)), cut from the tree under check on every run, compiled as the
// constructor of a shim Labels whose label type is a byte (jlabel::Label values are not needed: the body only moves
// them).  The anchor-independent counterpart of Verus unit labels.  Three labels, fully symbolic times (comparisons
// only: cheap): complete for this length.
//@harness name=labels_new_gap_filling_three_labels tier=quick label=bounded(3-labels,symbolic-times) props=C09,C17 timeout=900
use super::*;

pub struct SLabels { labels: Vec<u8>, times: Vec<(f64, f64)> }
impl SLabels {
    fn new(labels: Vec<u8>, times: Option<Vec<(f64, f64)>>) -> Result<Self, LabelError>
    /*@BODY src/label.rs :: impl Labels :: fn new@*/
}

fn norm(x: f64) -> f64 { if x < 0.0 { -1.0 } else { x } }

#[kani::proof]
#[kani::unwind(10)]
fn labels_new_gap_filling_three_labels() {
    let t: [f64; 6] = kani::any();
    let mut k = 0;
    while k < 6 { kani::assume(!t[k].is_nan()); k += 1; }
    let r = SLabels::new(vec![1, 2, 3], Some(vec![(t[0], t[1]), (t[2], t[3]), (t[4], t[5])]));
    match &r {
        Ok(l) => {
            assert!(l.labels.len() == 3 && l.times.len() == 3);
            // label 0: its start is only normalised; its end is its own when known, else the next label's START when that is known
            assert!(l.times[0].0 == norm(t[0]));
            let e0 = if t[1] >= 0.0 { t[1] } else if t[2] >= 0.0 { t[2] } else { -1.0 };
            assert!(l.times[0].1 == e0);
            // label 1: an unknown start inherits label 0's known end
            let s1 = if t[2] >= 0.0 { t[2] } else if t[1] >= 0.0 { t[1] } else { -1.0 };
            assert!(l.times[1].0 == s1);
            let e1 = if t[3] >= 0.0 { t[3] } else if t[4] >= 0.0 { t[4] } else { -1.0 };
            assert!(l.times[1].1 == e1);
            let s2 = if t[4] >= 0.0 { t[4] } else if t[3] >= 0.0 { t[3] } else { -1.0 };
            assert!(l.times[2].0 == s2);
            assert!(l.times[2].1 == norm(t[5]));
        }
        Err(_) => assert!(false),
    }
    // no times at all: every label gets (-1, -1); a length mismatch is the only error
    let r2 = SLabels::new(vec![1, 2], None);
    match &r2 { Ok(l) => assert!(l.times.len() == 2 && l.times[0] == (-1.0, -1.0) && l.times[1] == (-1.0, -1.0)), Err(_) => assert!(false) }
    let r3 = SLabels::new(vec![1, 2], Some(vec![(0.0, 1.0)]));
    assert!(matches!(r3, Err(LabelError::LengthMismatch)));
    kani::cover!(t[1] < 0.0 && t[2] >= 0.0);
    std::mem::forget((r, r2, r3));
}
