//@attach src/model/parser/mod.rs
// K-pdflen: the PDF-length expressions of parse_data_section (C18: "every header number replaced by {.., huge,
// overflow, ..}" must give an error, not an arithmetic-overflow panic).  parse_data_section itself is nom all the
// way down and out of CBMC's reach; the three expressions it hands to parse_model as `pdf_len` are cut from its
// text on every run (SLICE placeholders: the 4th argument of each parse_model call) and evaluated here for EVERY
// value of the header numbers (loop-free, full domain: complete, not bounded), with the header structs replaced
// by shims that have the same field names.  Each expression must not panic, and must be Ok(v) exactly when
// the mathematical value fits in usize, with v that value.
//@harness name=pdf_len_duration_no_overflow_panic tier=quick label=proved props=C18 timeout=900
//@harness name=pdf_len_stream_no_overflow_panic tier=quick label=proved props=C18 timeout=1800
//@harness name=pdf_len_gv_no_overflow_panic tier=quick label=proved props=C18 timeout=900
use super::*;

struct SGlobal { num_states: usize }
struct SStream { vector_length: usize, num_windows: usize, is_msd: bool }

fn duration_len(global: &SGlobal) -> Result<usize, ModelParseError> {
    Ok(/*@SLICE src/model/parser/mod.rs :: fn parse_data_section :: from "position.duration_pdf," to ")?;"@*/)
}
fn stream_len(stream_data: &SStream) -> Result<usize, ModelParseError> {
    Ok(/*@SLICE src/model/parser/mod.rs :: fn parse_data_section :: from "pos.stream_pdf," to ")?;"@*/)
}
fn gv_len(stream_data: &SStream) -> Result<usize, ModelParseError> {
    Ok(/*@SLICE src/model/parser/mod.rs :: fn parse_data_section :: from "pos.gv_pdf.ok_or(ModelParseError::UseGvError)?," to ")?;"@*/)
}

#[kani::proof]
fn pdf_len_duration_no_overflow_panic() {
    let g = SGlobal { num_states: kani::any() };
    let r = duration_len(&g);
    let want = g.num_states as u128 * 2;
    match &r {
        Ok(v) => assert!(*v as u128 == want),
        Err(_) => assert!(want > usize::MAX as u128),
    }
    kani::cover!(r.is_ok());
    kani::cover!(r.is_err());
    std::mem::forget(r);
}

#[kani::proof]
fn pdf_len_stream_no_overflow_panic() {
    let s = SStream { vector_length: kani::any(), num_windows: kani::any(), is_msd: kani::any() };
    let r = stream_len(&s);
    // u128 cannot hold the full three-factor product; the comparison is made in two steps
    let vw = s.vector_length as u128 * s.num_windows as u128;
    match &r {
        Ok(v) => assert!(vw <= usize::MAX as u128 && *v as u128 == vw * 2 + s.is_msd as u128),
        Err(_) => assert!(vw > usize::MAX as u128 || vw * 2 + s.is_msd as u128 > usize::MAX as u128),
    }
    kani::cover!(r.is_ok());
    kani::cover!(r.is_err());
    std::mem::forget(r);
}

#[kani::proof]
fn pdf_len_gv_no_overflow_panic() {
    let s = SStream { vector_length: kani::any(), num_windows: kani::any(), is_msd: kani::any() };
    let r = gv_len(&s);
    let want = s.vector_length as u128 * 2;
    match &r {
        Ok(v) => assert!(*v as u128 == want),
        Err(_) => assert!(want > usize::MAX as u128),
    }
    kani::cover!(r.is_ok());
    kani::cover!(r.is_err());
    std::mem::forget(r);
}
