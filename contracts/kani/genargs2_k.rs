//@attach src/engine.rs
// K-genargs2: the argument lists Engine::generator hands to Vocoder::new, to the duration estimator and to
// SpeechGenerator::new, cut from its text on every run (SLICE), evaluated for all condition values on the real
// Condition with shim voices / estimator / labels (C01: one frame period for vocoder and generator, optional low-pass
// order; C08 / C09: speed vs alignment dispatch; C14: beta; C16: volume reach the vocoder unchanged).  Kept apart from
// K-genargs so that a restructuring of one part of generator does not take the other harness down.
// One harness per group of arguments, so that a failure is reported under the properties that argument carries only.
//@harness name=generator_vocoder_orders_rate_and_period tier=quick label=proved props=C01 timeout=900
//@harness name=generator_vocoder_alpha_and_beta tier=quick label=proved props=C14 timeout=900
//@harness name=generator_vocoder_volume tier=quick label=proved props=C16 timeout=900
//@harness name=generator_duration_dispatch tier=quick label=proved props=C08,C09 timeout=900
//@harness name=generator_speech_arguments tier=quick label=proved props=C01 timeout=900
use super::*;

// ---- the other argument lists of generator: Vocoder::new, the duration dispatch, SpeechGenerator::new ----
pub struct SStreamMeta { vector_length: usize }
pub struct SGlobalMeta { num_streams: usize }
pub struct SVoices { g: SGlobalMeta, s: Vec<SStreamMeta> }
impl SVoices {
    fn global_metadata(&self) -> &SGlobalMeta { &self.g }
    fn stream_metadata(&self, i: usize) -> &SStreamMeta { &self.s[i] }
}
pub struct SLabels;
impl SLabels { fn times(&self) -> u8 { 77 } }
/// records which estimator entry point was used and with what
#[derive(PartialEq)]
pub enum SDur { Aligned(u8), Speed(f64) }
pub struct SEstimator;
impl SEstimator {
    fn create_with_alignment(&self, times: u8) -> SDur { SDur::Aligned(times) }
    fn create(&self, speed: f64) -> SDur { SDur::Speed(speed) }
}
pub struct SEngine2 { condition: Condition, voices: SVoices }
type VocArgs = (usize, usize, usize, bool, usize, f64, f64, f64, usize);
impl SEngine2 {
    fn vocoder_args(&self) -> VocArgs {
        /*@SLICE src/engine.rs :: impl Engine :: fn generator :: from "// The low-pass filter stream is optional." to "let vocoder"@*/
        (/*@SLICE src/engine.rs :: impl Engine :: fn generator :: from "let vocoder = Vocoder::new(" to ");"@*/)
    }
    fn durations(&self, estimator: &SEstimator, labels: &SLabels) -> SDur {
        /*@SLICE src/engine.rs :: impl Engine :: fn generator :: from "let durations = " to "; fn mutated"@*/
    }
    fn speech_args(&self, vocoder: u8, spectrum: u8, lf0: u8, lpf: u8) -> (usize, u8, u8, u8, u8) {
        (/*@SLICE src/engine.rs :: impl Engine :: fn generator :: from "Ok(SpeechGenerator::new(" to "))"@*/)
    }
}

fn any_engine2() -> (SEngine2, Condition, bool) {
    let mut c = Condition::default();
    c.sampling_frequency = kani::any();
    c.fperiod = kani::any();
    c.stage = kani::any();
    c.use_log_gain = kani::any();
    c.alpha = kani::any();
    c.beta = kani::any();
    c.volume = kani::any();
    c.speed = kani::any();
    c.phoneme_alignment_flag = kani::any();
    kani::assume(!c.alpha.is_nan() && !c.beta.is_nan() && !c.volume.is_nan() && !c.speed.is_nan());
    let three: bool = kani::any();
    let e = SEngine2 {
        condition: c.clone(),
        voices: SVoices { g: SGlobalMeta { num_streams: if three { 3 } else { 2 } },
                          s: vec![SStreamMeta { vector_length: 35 }, SStreamMeta { vector_length: 1 }, SStreamMeta { vector_length: 31 }] },
    };
    (e, c, three)
}

// Vocoder::new(order of stream 0, order of the optional low-pass stream or 0, stage, log gain, rate, alpha, beta, volume, frame period)
/// C01: the orders, the stage / gain convention, the rate and the frame period
#[kani::proof]
fn generator_vocoder_orders_rate_and_period() {
    let (e, c, three) = any_engine2();
    let v = e.vocoder_args();
    assert!(v.0 == 35 && v.1 == (if three { 31 } else { 0 }));
    assert!(v.2 == c.stage && v.3 == c.use_log_gain && v.4 == c.sampling_frequency);
    assert!(v.8 == c.fperiod);
    kani::cover!(three);
    kani::cover!(!three);
    std::mem::forget(e);
}
/// C14: alpha and beta reach the vocoder unchanged
#[kani::proof]
fn generator_vocoder_alpha_and_beta() {
    let (e, c, _three) = any_engine2();
    let v = e.vocoder_args();
    assert!(v.5.to_bits() == c.alpha.to_bits() && v.6.to_bits() == c.beta.to_bits());
    kani::cover!(true);
    std::mem::forget(e);
}
/// C16: the stored linear volume reaches the vocoder unchanged
#[kani::proof]
fn generator_vocoder_volume() {
    let (e, c, _three) = any_engine2();
    let v = e.vocoder_args();
    assert!(v.7.to_bits() == c.volume.to_bits());
    kani::cover!(true);
    std::mem::forget(e);
}
/// C08 / C09: alignment on -> create_with_alignment(labels.times()); off -> create(speed)
#[kani::proof]
fn generator_duration_dispatch() {
    let (e, c, _three) = any_engine2();
    let d = e.durations(&SEstimator, &SLabels);
    if c.phoneme_alignment_flag { assert!(d == SDur::Aligned(77)); } else { assert!(matches!(d, SDur::Speed(s) if s.to_bits() == c.speed.to_bits())); }
    kani::cover!(c.phoneme_alignment_flag);
    kani::cover!(!c.phoneme_alignment_flag);
    std::mem::forget(e);
}
/// C01: the generator renders with the SAME frame period the vocoder was built with, streams in the order spectrum, log-F0, low-pass
#[kani::proof]
fn generator_speech_arguments() {
    let (e, c, _three) = any_engine2();
    let sp = e.speech_args(9, 1, 2, 3);
    assert!(sp.0 == c.fperiod && sp.1 == 9 && sp.2 == 1 && sp.3 == 2 && sp.4 == 3);
    kani::cover!(true);
    std::mem::forget(e);
}
