"""Per-property configuration: which Verus units and which Kani harnesses decide it,
what is assumed, what is not decided.  Kani harnesses are selected by the `props=` key
of their //@harness header; Verus units are listed here."""

COMMON_TRUSTED = [
    'Verus 0.2026.09.13 + bundled z3: rustc semantics as modelled by Verus; f64 + - * / treated as uninterpreted total functions (float axiom group)',
    'Kani 0.68 / CBMC 6.11 / CaDiCaL: bit-precise model of the real crate; no termination proof',
    'tools/extract.py: copies function text from /repo on every run; rewrites R1 (strip pub/docs/attrs), R2 (drop eprintln!), R3 (mut self rebinding), R10 (name return value) and every declared //@subst / //@hole listed under assumptions',
    'vstd specifications of Vec/slice/Option/Seq',
]

VOC_ASSUMED = [
    'abstract vocoder contract (contracts/verus/vocoder_abs.inc): Vocoder::synthesize is a deterministic function of (state, lf0, spectrum, lpf), writes exactly rawdata[0..fperiod], panic-free under shape_ok; backed by a bounded Kani frame check and a no-hidden-state scan, not proved',
    'axiom_voc_out_len / axiom_voc_next_cfg: definitional axioms on the uninterpreted voc_out / voc_next',
]

HOOK_COMMITS = []

PENDING = 'not claimed yet in this revision: the contracts for this property are designed (DESIGN.md section 4) but not built'
NOT_APPLICABLE = {
    'C03': 'quantifies over thread schedules and pairs of executions (2-safety); no pre/postcondition expresses it; Kani has no threads (DESIGN.md section 6)',
    'C06': 'frequency-domain approximation-error statement about an IIR filter with exp/cos; no float semantics in Verus, CBMC libm models are non-deterministic (DESIGN.md section 6)',
    'C13': 'same as C06 plus powf and a stability claim (DESIGN.md section 6)',
}
for _p in ['C01', 'C05', 'C07', 'C12', 'C14', 'C15', 'C16', 'C18']:
    NOT_APPLICABLE[_p] = PENDING

PROPS = {
    'C02': {
        'technique': 'Verus contracts on the extracted text of SpeechGenerator::{new,generate_step,generate_all,synthesized_frames}; history induction as proof fns over those postconditions',
        'level_text': 'unbounded deductive proof (Verus/z3) that any history of steps plus finish concatenates to the one-shot waveform, for every frame count, buffer size and cursor position, relative to an abstract deterministic vocoder',
        'level_note': 'assumes the abstract vocoder contract (deterministic function of its state and arguments, writes exactly rawdata[0..fperiod]); frames*fperiod fits usize; rewrites R1,R2,R3,R5,R10',
        'verus': ['speech'],
        'assumptions': VOC_ASSUMED + [
            'usize overflow of frames*fperiod excluded by precondition of generate_all',
            'histories are modelled as the induction lemma_c02_step / lemma_c02_finish over generate_step\'s and generate_all\'s postconditions (spec level)',
        ],
        'trusted_base': [],
        'not_decided': [],
    },
    'C09': {
        'technique': 'Verus contracts on the extracted text of DurationEstimator::{create_with_alignment, estimate_duration_with_frame_length} and Labels::new; Kani-checked hole contracts and float lemma L3',
        'level_text': 'unbounded deductive proof (Verus/z3) that every known-end label closes a group fitted to (end - frames so far), every state gets >= 1 frame, all labels contribute all states and trailing labels fall back to model durations; round() identity (L3) by a loop-free Kani lemma',
        'level_note': 'holes (iterator chains, casts) abstracted by contracts that Kani checks on fixed sizes N<=3 (bounded); usize overflow of frame sums excluded by precondition; float operations uninterpreted in Verus',
        'verus': ['duration', 'labels', 'engine'],
        'assumptions': ['sums_fit / al_fc <= usize::MAX: machine-integer overflow of frame totals excluded by precondition',
                        'axiom_vec_len_bound: a Vec length is a usize'],
        'trusted_base': [],
        'not_decided': [],
    },
    'C08': {
        'technique': 'Verus contracts on the extracted text of DurationEstimator::{create, estimate_duration_with_frame_length}; Kani float lemmas L1, L2 and hole contracts',
        'level_text': 'unbounded deductive proof (Verus/z3) of totals and floors for every parameter sequence and speed; per-element rounding facts by loop-free Kani lemmas over all f64',
        'level_note': 'monotonicity in speed rests on the ASSUMED monotonicity of IEEE division (L4 not discharged); holes bounded N<=3; overflow of the frame total excluded by precondition',
        'verus': ['duration'],
        'assumptions': ['L4 (IEEE division monotone in the divisor) assumed, not proved'],
        'trusted_base': [],
        'not_decided': ['non-increasing in speed beyond the assumed monotonicity of IEEE division'],
    },
    'C11': {
        'technique': 'Verus contract on the extracted text of Engine::generator (per-stream wiring) + Kani harnesses on Mask::create / MlpgAdjust::create / Models::stream',
        'level_text': 'unbounded proof that stream i receives exactly msd_threshold[i], gv_weight[i], model_stream(i); voiced <=> msd > threshold and NODATA placement bounded by Kani',
        'level_note': 'callees abstracted by uninterpreted functions of their arguments (determinism of safe Rust without interior mutability assumed)',
        'verus': ['engine'],
        'assumptions': [], 'trusted_base': [], 'not_decided': [],
    },
    'C19': {
        'technique': 'Verus contracts on the extracted text of InterporationWeight setters/getters and Weights::check_length; Kani harnesses for Weights::new and VoiceSet::new',
        'level_text': 'unbounded proof (any number of voices/streams) that an update is accepted iff sum_ok && len == nvoices, writes only the addressed vector, and leaves *self unchanged on rejection; Weights::new / VoiceSet::new bounded by Kani',
        'level_note': 'sum_ok is tied to |sum-1| <= EPSILON by Kani for lengths 0..3 only (bounded); VoiceSet::new on 2 voices with symbolic metadata (bounded); string-valued metadata fields compared as constants',
        'verus': ['weights'],
        'assumptions': ['Weights::new contract (Ok => stored == input && sum_ok; Err => !sum_ok) assumed in Verus, checked by Kani for len <= 3'],
        'trusted_base': [], 'not_decided': [],
    },
    'C10': {
        'technique': 'Kani harnesses on ModelParameter::{mul, mul_add_assign} and VoiceSet::weighted over symbolic parameters with exact-scaling weight constants',
        'level_text': 'bounded: for weight vectors from an exact-scaling constant set and ALL parameter values the blend is bit-exactly sum w_v p_v; (1,0) reproduces voice 0; identical voices reproduce the voice',
        'level_note': 'arbitrary symbolic weights are intractable for CBMC (products of two symbolic doubles, P9): the general product formula is NOT decided; 2 voices, vector length 1-2',
        'verus': [],
        'assumptions': [], 'trusted_base': [],
        'not_decided': ['general weighted-average formula for arbitrary (non-constant) weights', 'which weight vector feeds which quantity (Models::duration/stream/gv) is not yet covered'],
    },
    'C17': {
        'technique': 'Verus contracts on the extracted text of Labels::new and Engine::generator',
        'level_text': 'unbounded proof that labels given without times get (-1,-1) for every label, that length mismatch is the only error of Labels::new, and that with alignment off the time stamps do not occur in what generator() builds',
        'level_note': 'PARTIAL: load_from_strings (line splitting, parsers, error mapping) and the four ToLabels impls are not yet under contract; jlabel and f64 parsers are outside any verifier',
        'verus': ['labels', 'engine'],
        'assumptions': ['axiom_pair_clone: Clone of (f64, f64) returns an equal pair'],
        'trusted_base': [],
        'not_decided': ['Labels::load_from_strings control flow and error mapping', 'jlabel::Label::from_str / f64::from_str never panic'],
    },
    'C04': {
        'technique': 'Verus contracts on the extracted text of Tree::search_node, Model::{get_index,get_parameter}, ModelParameter::from_linear; Kani harnesses for find_tree_index and PDF row split',
        'level_text': 'unbounded proof (any tree size / table size) that the Gaussian handed out is pdf[first tree with matching state][leaf reached by the yes/no walk - 1] and that a PDF row splits into means|variances|msd; partial correctness (termination of the walk assumed)',
        'level_note': 'PARTIAL: question matching (jlabel-question fast path / regex) is an uninterpreted predicate; section split, header deserializer, tree text parser, convert_tree, window parsing and option loading are not under contract in this revision',
        'verus': ['tree'],
        'assumptions': ['Question::test is a deterministic predicate of (question, label) (uninterpreted test_spec)',
                        'Model::find_tree_index == first tree whose state matches (Kani-checked, bounded trees <= 3)'],
        'trusted_base': [],
        'not_decided': ['HTS wildcard semantics of question matching', 'split_sections / header serde / window rows / tree text -> node table (parse_node, convert_tree)', 'f32 little-endian PDF block offsets in parse_model', 'options -> Condition (load_model option loop)'],
    },
    'C20': {
        'technique': 'Kani native function contracts (requires/ensures/modifies + proof_for_contract) and loop-free full-domain harnesses on Condition setters/getters',
        'level_text': 'complete (loop-free, full symbolic f64/usize domain) proofs of every scalar setter/getter contract incl. frame; indexed setters bounded to vectors of length 3',
        'level_note': 'NaN excluded (property says finite); indexed-setter frame bounded(len=3); load_model defaults not yet covered in this revision',
        'verus': [],
        'assumptions': [
            'indexed setters (msd threshold, GV weight): frame checked on vectors of concrete length 3 under Kani (bounded); clamp/max semantics for all non-NaN f64 (complete, loop-free)',
            'NaN arguments are outside the property ("finite argument") and excluded by kani::requires / kani::assume',
        ],
        'trusted_base': [],
        'not_decided': [],
    },
}
