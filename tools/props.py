"""Per-property configuration: which Verus units and which Kani harnesses decide it,
what is assumed, what is not decided.  Kani harnesses are selected by the `props=` key
of their //@harness header; Verus units are listed here."""

COMMON_TRUSTED = [
    'Verus 0.2026.09.13 + bundled z3: rustc semantics as modelled by Verus; f64 + - * / treated as uninterpreted total functions (float axiom group)',
    'Kani 0.68 / CBMC 6.11 / CaDiCaL: bit-precise model of the real crate; no termination proof',
    'tools/extract.py: copies function text from /repo on every run; rewrites R1 (strip pub/docs/attrs), R2 (drop eprintln!), R3 (mut self rebinding), R10 (name return value) and every declared //@subst / //@hole listed under assumptions',
    'vstd specifications of Vec/slice/Option/Seq',
]

VOC_ASSUMED = [
    'abstract vocoder contract (contracts/verus/vocoder_abs.inc) used by units speech and engine: Vocoder::synthesize is a deterministic function of (state, lf0, spectrum, lpf), writes exactly rawdata[0..fperiod], panic-free under shape_ok. The frame clause, the length clause and panic-freedom under the shape precondition are PROVED for the real text in unit vocoder (relative to length-only contracts of the cepstrum conversions, the filters and the excitation); determinism is a Rust-language fact for safe code without hidden state, backed by the syntactic scan of src/vocoder (no unsafe / static / interior mutability / randomness / time); the two units state the same contract in different vocabularies (abstract state VocSt vs concrete fields) and that correspondence is by inspection',
    'axiom_voc_out_len / axiom_voc_next_cfg: definitional axioms on the uninterpreted voc_out / voc_next',
]

HOOK_COMMITS = []

# Clause ownership in shared Verus units: a labelled postcondition / assertion of a unit listed under several
# properties that carries only some of them.  When it fails, the checks of the properties NOT named here print an
# OTHER-PROPERTY note instead of a VIOLATION (their own property can still hold); the checks of the owners report it.
# Deliberately short: only clauses whose reading is unambiguous; every other obligation of a shared unit is reported
# under every property that lists the unit (DESIGN 10.7).
CLAUSE_OWNERS = {
    'vocoder': {
        'pitch': ['C07', 'C11'],                          # the excitation runs with the period computed from lf0
        'gain': ['C16', 'C02'],                           # every written sample is a filter output times the volume
        'gain-sample-is-x-times-volume': ['C16', 'C02'],
    },
    'duration': {
        'speed1': ['C08'],                                # speed == 1 leaves the rounded model durations
        'scaled-total': ['C08'],                          # total = round(sum of means / speed)
    },
    'engine': {                                           # Engine::generator, one clause per component it hands on
        'wiring-frame-period': ['C01'],                   # the generator's frame period is the condition's, cursor at 0
        'wiring-vocoder': ['C01', 'C14', 'C16'],          # Vocoder::new arguments (orders, stage, rate, alpha, beta, volume, frame period)
        'wiring-spectrum': ['C09', 'C11', 'C12', 'C15', 'C17'],   # stream 0: its own GV weight / threshold / model, the dispatched durations
        'wiring-lf0': ['C09', 'C11', 'C12', 'C15', 'C17'],        # stream 1, with the half tone applied to its model
        'wiring-lpf': ['C09', 'C11', 'C12', 'C15', 'C17'],        # stream 2 when the voice has one
        'wiring-no-lpf-stream': ['C01'],                  # two-stream voices: one empty low-pass row per frame
    },
    'labels': {
        'gap-fill': ['C09'],                              # missing times filled from the neighbours
    },
    'cond': {
        'defaults-kept': ['C20'], 'header-rates': ['C20'], 'thresholds-and-gv': ['C20'], 'only-that-entry': ['C20'],
    },
}

PENDING = 'not claimed yet in this revision: the contracts for this property are designed (DESIGN.md section 4) but not built'
NOT_APPLICABLE = {
    'C03': 'quantifies over thread schedules and pairs of executions (2-safety); no pre/postcondition expresses it; Kani has no threads (DESIGN.md section 6)',
    'C06': 'frequency-domain approximation-error statement about an IIR filter with exp/cos; no float semantics in Verus, CBMC libm models are non-deterministic (DESIGN.md section 6)',
}


PROPS = {
    'C02': {
        'scans': ['vocoder_no_hidden_state'],
        'technique': 'Verus contracts on the extracted text of SpeechGenerator::{new,generate_step,generate_all,synthesized_frames}; history induction as proof fns over those postconditions; the sample-writing statement of synthesize cut from its text (K-sample: the previous buffer content never reaches the sample)',
        'level_text': 'unbounded deductive proof (Verus/z3) that any history of steps plus finish concatenates to the one-shot waveform, for every frame count, buffer size and cursor position, relative to an abstract deterministic vocoder',
        'level_note': 'assumes the abstract vocoder contract (deterministic function of its state and arguments, writes exactly rawdata[0..fperiod]); frames*fperiod fits usize; rewrites R1,R2,R3,R5,R10',
        'verus': ['speech', 'vocoder'],
        'assumptions': VOC_ASSUMED + [
            'usize overflow of frames*fperiod excluded by precondition of generate_all',
            'histories are modelled as the induction lemma_c02_step / lemma_c02_finish over generate_step\'s and generate_all\'s postconditions (spec level)',
        ],
        'trusted_base': [],
        'not_decided': [],
    },
    'C09': {
        'technique': 'Verus contracts on the extracted text of DurationEstimator::{create_with_alignment, estimate_duration_with_frame_length} and Labels::new; Kani-checked hole contracts and float lemma L3; modular Kani harnesses on the real create_with_alignment with the fit replaced by its Verus-proved contract; the real body of Labels::new on three labels with symbolic times (K-labels-body)',
        'level_text': 'unbounded deductive proof (Verus/z3) that every known-end label closes a group fitted to (end - frames so far), every state gets >= 1 frame, all labels contribute all states and trailing labels fall back to model durations; round() identity (L3) by a loop-free Kani lemma',
        'level_note': 'holes (iterator chains, casts) abstracted by contracts that Kani checks on fixed sizes N<=3 (bounded); usize overflow of frame sums excluded by precondition; float operations uninterpreted in Verus; API-level counterparts (K-dur-mod) are bounded: concrete end times with a symbolic split inside each fitted group',
        'verus': ['duration', 'labels', 'engine'],
        'assumptions': ['sums_fit / al_fc <= usize::MAX: machine-integer overflow of frame totals excluded by precondition',
                        'axiom_vec_len_bound: a Vec length is a usize'],
        'trusted_base': [],
        'not_decided': [],
    },
    'C08': {
        'technique': 'Verus contracts on the extracted text of DurationEstimator::{create, estimate_duration_with_frame_length}; Kani float lemmas L1, L2 and hole contracts; modular Kani harness on the real create with the fit replaced by its Verus-proved contract; bounded run of the real fit on repeated-shrink cases',
        'level_text': 'unbounded deductive proof (Verus/z3) of totals and floors for every parameter sequence and speed; per-element rounding facts by loop-free Kani lemmas over all f64',
        'level_note': 'monotonicity in speed rests on the ASSUMED monotonicity of IEEE division (L4 not discharged); holes bounded N<=3; overflow of the frame total excluded by precondition',
        'verus': ['duration'],
        'assumptions': ['L4 (IEEE division monotone in the divisor) assumed, not proved'],
        'trusted_base': [],
        'not_decided': ['non-increasing in speed beyond the assumed monotonicity of IEEE division'],
    },
    'C11': {
        'technique': 'Verus contract on the extracted text of Engine::generator (per-stream wiring) + Kani harnesses on Mask::create / MlpgAdjust::create / Models::stream; the interpolated voicing weight itself: Kani ModelParameter::mul with weights 1/2, 2, 1/4 (msd_out = w*msd for every msd; the unbounded statement for mul / mul_add_assign is Verus unit interp, which belongs to C10); Kani: the argument lists of the three MlpgAdjust::new calls of Engine::generator cut from its text (K-genargs, full symbolic condition values)',
        'level_text': 'unbounded proof that stream i receives exactly msd_threshold[i], gv_weight[i], model_stream(i); voiced <=> msd > threshold and NODATA placement bounded by Kani',
        'level_note': 'callees abstracted by uninterpreted functions of their arguments (determinism of safe Rust without interior mutability assumed)',
        'verus': ['engine', 'vocoder'],
        'assumptions': [], 'trusted_base': [], 'not_decided': [],
    },
    'C19': {
        'technique': 'Verus contracts on the extracted text of InterporationWeight setters/getters, Weights::check_length and VoiceSet::new; Kani harnesses for Weights::new, the zip/all hole and API-level update histories',
        'level_text': 'unbounded proof (any number of voices/streams) that an update is accepted iff sum_ok && len == nvoices, writes only the addressed vector, and leaves *self unchanged on rejection; that VoiceSet::new rejects the empty list with EmptyVoice and accepts a list iff every voice has the first one\'s global metadata, stream count and per-stream metadata',
        'level_note': 'sum_ok is tied to |sum-1| <= EPSILON by Kani for lengths 0..3 only (bounded); derived PartialEq of the metadata structs is an uninterpreted relation in Verus (field-wise equality of #[derive(PartialEq)] assumed; CBMC cannot run it on Voice metadata); the zip/all hole is bounded-checked on 2 streams',
        'verus': ['weights', 'voiceset'],
        'assumptions': ['Weights::new contract (Ok => stored == input && sum_ok; Err => !sum_ok) assumed in Verus, checked by Kani for len <= 3'],
        'trusted_base': [], 'not_decided': [],
    },
    'C10': {
        'technique': 'Verus contracts on the extracted text of ModelParameter::{mul, mul_add_assign} (IEEE ops uninterpreted); Kani harnesses on the real body of VoiceSet::weighted (cut from the tree every run, shim receiver) and on mul / mul_add_assign with exact-scaling weight constants (mul alone with weights 1/2, 2, 1/4 in the hole-free module K-modelmul)',
        'level_text': 'unbounded proof (any weight, any vector length) that one accumulation step yields exactly lhs + weight*rhs per mean/variance/msd component and that mul scales every component; Kani (bit-precise, all parameter values): weights (1,0) return the first parameter set unchanged, (.5,.5) gives p0*.5 + .5*p1, msd presence follows the first voice',
        'level_note': 'PARTIAL: the fold of VoiceSet::weighted (voice v paired with weight v, in order, any sign) is checked bounded only: its real body under a shim receiver, 2 voices (3 in the thorough tier), concrete values; which weight vector, model and state feed durations / stream parameters / GV statistics in Models is checked bounded on the statements and closure bodies of Models::{duration, stream, gv} cut from their text (K-models-slice, shim environment); the label-major / state-minor layout produced by their flat_map / collect chains and the state range 2..2+nstate are NOT decided (the chains exhaust CBMC); floats are uninterpreted in Verus (no rounding claims)',
        'verus': ['interp'],
        'assumptions': [], 'trusted_base': [],
        'not_decided': ['VoiceSet::weighted beyond 3 voices / for symbolic values', 'layout order and state range of Models::{duration, stream, gv} (flat_map / collect chains)', '"up to rounding" for identical voices with arbitrary weights'],
    },
    'C17': {
        'technique': 'Verus contracts on the extracted text of Labels::new, the four ToLabels impls and Engine::generator; Kani harnesses on the real body of Labels::load_from_strings (cut from the tree every run) over an abstraction of the string layer',
        'level_text': 'unbounded proof that labels given without times get (-1,-1) for every label, that length mismatch is the only error of Labels::new, that the array and owned-vector input forms are exactly the slice form on the same lines (at the condition\'s sampling rate and frame period), and that with alignment off the time stamps do not occur in what generator() builds',
        'level_note': 'PARTIAL: the control flow of load_from_strings (one / two / three tokens, blank-line skip, error mapping, time scaling by sampling_rate / (fperiod * 1e7), line order) is checked bounded (<= 3 lines) on its real body with str::splitn / str::parse / jlabel replaced by a pre-tokenised shim; how a line splits into tokens and how a token parses (core, jlabel) are outside any verifier; unit forms runs with --no-trait-conflicts (Verus internal error on AsRef)',
        'verus': ['labels', 'engine', 'forms'],
        'assumptions': ['axiom_pair_clone: Clone of (f64, f64) returns an equal pair'],
        'trusted_base': [],
        'not_decided': ['str::splitn / f64::from_str / jlabel::Label::from_str: tokenisation and parsing themselves, panic-freedom included', 'load_from_strings beyond 3 lines'],
    },
    'C04': {
        'technique': 'Verus contracts on the extracted text of Tree::search_node, Model::{get_index,get_parameter}, ModelParameter::from_linear and of the header-entry to stream-metadata conversion (From<StreamData>); Kani harnesses for find_tree_index, the PDF row split and the real body of convert_tree (cut from the tree every run; std BTreeMap replaced by a list-backed map)',
        'level_text': 'unbounded proof (any tree size / table size) that the Gaussian handed out is pdf[first tree with matching state][leaf reached by the yes/no walk - 1] and that a PDF row splits into means|variances|msd; partial correctness (termination of the walk assumed)',
        'level_note': 'PARTIAL: question matching (jlabel-question fast path / regex) is an uninterpreted predicate; section split, header deserializer, tree text parser and window parsing are not under contract; the PDF-block reader of parse_model (counts first, then n rows of pdf_len values per tree through from_linear) is checked bounded on its statements cut from the text with the combinators of nom replaced by stand-ins over a decoded number stream (K-pdfblock); the character helpers of the header deserializer parse_bool / parse_string / next_delimiter on every ASCII input of <= 4 bytes (K-de-text); convert_tree is checked bounded on one-node trees only (single leaf, one question with two leaves, undefined references): the node-order / child-index rule for larger trees gave no answer under CBMC in 20 minutes',
        'verus': ['tree', 'header'],
        'hole_units': ['cond'],
        'assumptions': ['Question::test is a deterministic predicate of (question, label) (uninterpreted test_spec)',
                        'Model::find_tree_index == first tree whose state matches (Kani-checked, bounded trees <= 3)'],
        'trusted_base': [],
        'not_decided': ['HTS wildcard semantics of question matching', 'split_sections / header serde / window rows / tree text -> node table (parse_node; convert_tree beyond one-node trees)', 'byte-level decoding of the PDF block (le_u32 / le_f32) and the ranges handed to parse_all'],
    },
    'C18': {
        'technique': 'Kani harnesses (built-in panic / overflow / index checks) on the loader\'s own slicing, integer accumulation, the PDF-length expressions of parse_data_section, the key splitting of the header map visitor, the real bodies of convert_tree and parse_window_row (all cut from the text every run; std BTreeMap / nom combinators replaced by stated stand-ins)',
        'level_text': 'function-level: for every range / digit string / reference in the stated bounds the mechanism returns Ok or Err and never panics',
        'level_note': 'PARTIAL: nom combinators, serde, jlabel-question parse and regex are outside the verifier (assumed panic-free, non-looping, allocation-capped); whole-file quantification over arbitrary bytes is not reached; convert_tree is out of CBMC\'s reach (repaired, demonstrated natively)',
        'verus': [],
        'assumptions': ['nom 8, serde, jlabel-question, regex never panic and never loop on empty matches (not verified)'],
        'trusted_base': [],
        'not_decided': ['whole-file quantifier (any byte sequence)', 'allocation bounds beyond the window-row count and the PDF block (rows handed back <= values consumed, checked bounded on the block reader with stand-ins that follow nom 8.0.0: must-consume guard of many_m_n, none in count; nom initial-capacity cap assumed)', 'convert_tree beyond one-node trees', 'key slicing beyond 5-byte ASCII keys'],
    },
    'C13': {
        'technique': 'Verus contracts on the extracted text of LineSpectralPairs::{lsp2lpc, lsp2mgc}, Generalized::{gnorm, ignorm}, MelGeneralizedCepstrum::{gc2gc, mgc2mgc} and MelGeneralizedLogSpectrumApproximation::{df, dff} (IEEE ops, cos, exp, ln, powf uninterpreted); the two iterator-chain holes and an API-level polynomial-product harness checked by Kani; bit-precise Kani runs of the real gc2gc / gnorm / ignorm and of the MGLSA filter (alpha = 0) on exact dyadic inputs against the SPTK definitions and the direct-form all-pole cascade (K-mgc, K-mglsa)',
        'level_text': 'unbounded proof (any order, even or odd) of the mechanism-level clauses of the property: the LPC polynomial is built from the line spectral frequencies w_1..w_m that FOLLOW the gain entry (cosine tables from the odd- and even-numbered frequencies), has m + 1 coefficients with a_0 = 1 and a_j = -(-0.5 (P_j + Q_j)) where P_j, Q_j are the time-j outputs of the two cascades of second-order sections 1 + t z^-1 + z^-2 fed with x[k] +- x[k-1] (even order) or x[k] and x[k] - x[k-2] (odd order), i.e. the coefficients of (P(z) + Q(z)) / 2 as HTS_lsp2lpc computes them; the gain (or exp of the log gain) replaces a_0, the conversion to MGC is of order m; gnorm / ignorm / gc2gc are the SPTK gain-normalisation and generalised-cepstral-transformation recursions and mgc2mgc composes them (after freqt with (a2 - a1) / (1 - a1 a2) when the warpings differ); the MGLSA filter runs its sections in order, each warping its delay line in place, subtracting the prediction and shifting the line (df / dff as a state machine); none of these panics on well-formed shapes',
        'level_note': 'PARTIAL, mechanism level only: that the pulse response has magnitude K / |A(e^jw)|^s within 0.001 neper, and stability, are NOT decided (frequency-domain statement about an IIR filter; no float semantics in Verus, libm not modelled by CBMC); that the cascade equals the polynomial product in exact arithmetic is not proved in Verus (floats are uninterpreted) but checked by Kani on orders 2..5 with exact dyadic values against products computed over the rationals; freqt at the instance MelGeneralizedCepstrum is assumed to have the contract proved for the same default-method text at MelCepstrum',
        'verus': ['lsp', 'mgc', 'mglsa'],
        'assumptions': ['axiom_vec_len_bound: a Vec length is a usize'], 'trusted_base': [],
        'not_decided': ['magnitude response K / |A|^s within 0.001 neper', 'decaying finite response for well-separated frequencies (check_lsp_stability, MGLSA filter)', 'numerical accuracy of gc2gc / gnorm / ignorm / mgc2mgc (their recursions are pinned, not their rounding)'],
    },
    'C15': {
        'technique': 'Verus contracts on the extracted text of StreamParameter::apply_additional_half_tone and Engine::generator; Kani harnesses pin the float values; Kani: the argument lists of the three MlpgAdjust::new calls of Engine::generator cut from its text (K-genargs: the shift reaches the stream-1 model before MLPG and no other stream); documented constant values (K-const)',
        'level_text': 'unbounded proof (any number of states and windows) that only the static log-F0 mean of each state changes, to clamp(mean + h*HALF_TONE, MIN_LF0, MAX_LF0), that h = 0 is the identity, and that the shift is applied to stream 1 only, before MLPG, reaching neither durations nor the other streams; Kani: the same on 2 states x 2 windows bit-precisely',
        'level_note': 'mean-level claim; the trajectory-level shift after MLPG (exact arithmetic only) is not decided; in Verus IEEE ops and f64::clamp are uninterpreted (values pinned by Kani on 1-2 states with h from 6 constants)',
        'verus': ['engine', 'halftone'],
        'assumptions': [], 'trusted_base': [],
        'not_decided': ['log-F0 of every voiced FRAME shifts by h*ln2/12 after MLPG (holds in exact arithmetic only)', 'clamp inactive / active distinction at trajectory level'],
    },
    'C01': {
        'scans': ['vocoder_no_hidden_state'],
        'technique': 'Verus contracts on the extracted text of SpeechGenerator, DurationEstimator and Engine::{generator,synthesize}; Kani harnesses for hole contracts, MlpgAdjust::create shapes and Excitation::new (ring buffer of exactly nlpf slots)',
        'level_text': 'unbounded proof of no-panic and exact length (fperiod x sum of state durations), every state >= 1 frame, every label contributes all states, empty -> empty, for 2- and 3-stream voices, relative to the assumed contracts of Models / MlpgAdjust / Vocoder; those contracts are bounded-checked by Kani where stated',
        'level_note': 'finiteness / "NaN only after runaway growth" is NOT decided (IIR stability in floating point); Vocoder::synthesize panic-freedom under shape_ok, Models::duration length and MlpgAdjust::create shape are assumed in Verus and only bounded-checked; usize overflow of frame totals excluded by precondition',
        'verus': ['speech', 'duration', 'engine', 'vocoder'],
        'assumptions': VOC_ASSUMED + ['Models::duration returns labels*nstate entries (assumed)', 'MlpgAdjust::create returns sum(durations) rows of vector_length values (Kani: bounded)'],
        'trusted_base': [],
        'not_decided': ['all samples finite inside the stable range; non-finite only after runaway growth', 'Model::get_parameter todo!() unreachable only for well-formed models (precondition lookup_ok in unit tree)'],
    },
    'C05': {
        'technique': 'Verus contracts on the extracted text of Mask::boundary_distances, Window accessors and MlpgMatrix::{ldl_factorization, substitutions, solve}; Kani harnesses on Mask::{create,fill} and MlpgAdjust::create (argument capture by stubbing calc_wuw_and_wum); bit-precise Kani runs of the real calc_wuw_and_wum and solve on exact dyadic instances against the definition (K-wuw, K-solve)',
        'level_text': 'unbounded proof of the boundary distances (voiced run lengths to the nearest unvoiced frame or edge) for any number of frames; unbounded proof (any length, any band width, IEEE ops uninterpreted) that ldl_factorization is the textbook in-place banded LDL\' recursion, that substitutions is forward then backward substitution over ALL width-1 off-diagonals, and that solve composes them leaving the right-hand side untouched, all panic-free on a well-formed matrix; bounded: frame -> state expansion, unvoiced frames carry NODATA, dynamic windows whose span touches an utterance edge or an unvoiced frame get zero precision (width-3 and width-5 windows)',
        'level_note': 'PARTIAL: that calc_wuw_and_wum accumulates the band of W\'U^-1W and W\'U^-1mu is checked bounded only (K-wuw: 4 frames, static + delta + delta-delta windows, exact dyadic values against the definition computed over the rationals, on the domain create() produces: zero precision on edge-truncated dynamic rows); that the LDL\' recursions solve the normal equations to rounding accuracy is NOT decided (real-number linear algebra; no float semantics in Verus, symbolic products intractable in CBMC); the solver contracts pin the recursions, not their numerical meaning',
        'verus': ['mask', 'window', 'mlpgsolve'],
        'assumptions': [], 'trusted_base': [],
        'not_decided': ['maximum-likelihood optimality: W\'U^-1W c = W\'U^-1 mu to rounding accuracy'],
    },
    'C07': {
        'technique': 'Kani loop-free harnesses on Excitation::{start,get,end}, Random::rnd, Mseq::next; Verus contracts on the extracted text of RingBuffer and Excitation::{start, end, get, voiced_frame, unvoiced_frame}',
        'level_text': 'complete (loop-free, full symbolic f64 domain within the stated envelope 2 <= T0 <= 4800) proof of the pulse-train step contract and its invariant 0 <= counter < T0; LCG / M-sequence recurrences for all states; unbounded proof (any low-pass order) that one voiced sample adds noise*(delta - h[i]) + pulse*h[i] to ring-buffer slot index+i (mod n) and one unvoiced sample adds the noise at the centre slot; Kani: one full get() step for nlpf = 3',
        'level_note': 'PARTIAL: noise statistics (zero mean, unit variance, whiteness) and exp/sqrt accuracy are not decided; sqrt is an uninterpreted stub; the glide increment (T0_new - T0_prev) / fperiod, the restart at a voicing boundary and the per-sample bookkeeping of Excitation::{start, get, end} are proved on the real text with IEEE ops uninterpreted; the pitch clamp is in unit vocoder',
        'verus': ['ringbuf', 'vocoder'],
        'assumptions': ['sqrt returns a finite non-negative value (stub)'], 'trusted_base': [],
        'not_decided': ['zero-mean unit-variance white noise', 'pulse height equals sqrt(T0) numerically (libm)'],
    },
    'C12': {
        'technique': 'Verus contracts on the extracted text of MlpgMatrix::par, MlpgGlobalVariance::apply_gv / parmgen and Engine::generator; MlpgGlobalVariance::{next_step, calc_hmmobj_derivative}; Kani harnesses on MlpgGlobalVariance::{apply_gv, calc_gv, conv_gv} and the switch-expansion hole',
        'level_text': 'unbounded proof that a stream without GV returns exactly solve() whatever the GV weight; that with GV the optimiser runs on the solution of the unmodified system with target GV mean x weight; that parmgen returns the trajectory untouched when no frame is eligible and otherwise applies conv_gv and exactly 5 next_step updates all driven by that same target and GV variance, each on freshly evaluated mean / variance / gradient (step sizes existentially quantified); and that gv_weight[i] reaches stream i only; bounded (T = 2, symbolic values): with no eligible frame the trajectory is returned unchanged',
        'level_note': 'PARTIAL: "variance within 20% of the target for >= 100 eligible frames" and monotonicity in the weight are NOT decided (empirical convergence of a damped Newton iteration); next_step and calc_hmmobj_derivative are proved (unit gvstep) to be the per-frame update with the frame\'s OWN switch and the band product g = R c / objective of HTS_PStream_gv_parmgen; calc_gv and conv_gv (iterator chains) are checked bounded on exact concrete values (K-gvnum: statistics over, and rescaling of, the eligible frames only)',
        'verus': ['engine', 'gvpar', 'gvstep'],
        'assumptions': ['frame counts whose products win_size*T and T*T fit in usize (precondition of next_step / calc_hmmobj_derivative)'], 'trusted_base': [],
        'not_decided': ['variance within 20% of gv_weight x GV mean', 'monotone growth with the weight', 'conv_gv / calc_gv beyond the bounded concrete check (5 frames)', 'step-size schedule of parmgen'],
    },
    'C14': {
        'technique': 'Verus contracts on the extracted text of MelCepstrum::postfilter_mcp (b-domain, floats and b2en uninterpreted), CepstrumT::{mc2b, freqt, c2ir}, CoefficientsT::{b2mc, b2en} and Engine::generator; Kani harnesses for the no-op cases; native contract on Condition::set_beta; bit-precise Kani runs of the real freqt / mc2b / b2mc / c2ir on exact dyadic inputs against the textbook definitions (K-cep)',
        'level_text': 'unbounded proof (any order) of the b-domain update: b_k (k>=2) x (1+beta), b_1 - beta*alpha*b_2, b_0 + ln(e1/e2)/2, converted back with b2mc, and of the no-op cases; ring-identity lemma giving c_1 unchanged and c_k x (1+beta); Kani: no-op cases bit-identical for symbolic values; beta is clamped to [0,1] and reaches only Vocoder::new',
        'level_note': 'PARTIAL: unit postfilter uses mc2b / b2mc / b2en as named functions; unit mc2b proves that the real mc2b and b2mc are the recursions b_i = c_i - alpha b_{i+1} and c_i = b_i + alpha b_{i+1} (any order, IEEE ops uninterpreted); the energy computation is under contract end to end as a composition of recursions: b2en = sum of squares of the 576-tap c2ir of freqt(575, -alpha) of b2mc(alpha) (units b2en, c2ir, freqt, mc2b; the final sum is a Kani-checked hole); that this number is the impulse-response energy to within 1% (truncation to 576 taps, rounding) is NOT decided; the c-domain statement holds in exact arithmetic (lemma over the integers)',
        'verus': ['engine', 'postfilter', 'freqt', 'mc2b', 'c2ir', 'b2en'],
        'assumptions': [], 'trusted_base': [],
        'not_decided': ['impulse-response energy preserved within 1% (truncation to 576 taps, rounding)'],
    },
    'C16': {
        'technique': 'Kani frame harness on Condition::set_volume (exp stubbed as an uninterpreted function) + Verus contract on Engine::generator; documented constant values (K-const: DB = ln10/20 within 2 ulp); the sample-writing statement of synthesize cut from its text (K-sample: all filter outputs and buffer contents at four volumes)',
        'level_text': 'complete frame proof: set_volume writes the volume field only; unbounded proof that condition.volume reaches Vocoder::new\'s volume argument and nothing else in the pipeline',
        'level_note': 'PARTIAL: the dB round trip ln(exp(x)) ~ x is NOT decided (libm); Verus states volume == exp(v*DB), get_volume == ln(volume)/DB, and (unit vocoder) that every sample written by Vocoder::synthesize is some filter output times the stored volume, with exp/ln/IEEE ops uninterpreted',
        'verus': ['engine', 'cond', 'vocoder'],
        'assumptions': ['exp is a deterministic positive function (stub)'], 'trusted_base': [],
        'not_decided': ['get_volume(set_volume(v)) ~ v (libm round trip)', 'the exact filter output x that is multiplied by the volume (only "some x times volume" is proved)'],
    },
    'C20': {
        'technique': 'Kani native function contracts (requires/ensures/modifies + proof_for_contract) and loop-free full-domain harnesses on Condition setters/getters',
        'level_text': 'complete (loop-free, full symbolic f64/usize domain) proofs of every scalar setter/getter contract incl. frame; indexed setters bounded to vectors of length 3',
        'level_note': 'NaN excluded (property says finite); clamp/max values of the indexed setters pinned on vectors of length 3 (Kani) while their frame is proved for any length (Verus, clamp/max uninterpreted); load_model: option loop abstracted as a statement hole checked by Kani on concrete option strings; [x].repeat(n) and InterporationWeight::new are assumed contracts',
        'verus': ['cond'],
        'assumptions': [
            'indexed setters (msd threshold, GV weight): frame proved for every vector length in Verus unit cond with f64::clamp / f64::max as uninterpreted functions (assume_specification); their values are pinned by Kani on vectors of length 3 and, for the same expressions, for all non-NaN f64 by the scalar setter contracts',
            'repeat1: [x].repeat(n) yields n copies of x (std, assumed)', 'InterporationWeight::new(nvoices, nstream) abstracted by iw_new_spec (its shape is checked by K-wts iw_new_shapes)',
            'NaN arguments are outside the property ("finite argument") and excluded by kani::requires / kani::assume',
        ],
        'trusted_base': [],
        'not_decided': [],
    },
}
