#!/usr/bin/env python3
"""setup_cmd: confirm the two verifiers run offline.  Nothing is built here; every check
rebuilds what it needs from /repo."""
import os, subprocess, sys, tempfile
d = tempfile.mkdtemp(prefix='jbv-selftest-', dir=os.environ.get('VERIF_SCRATCH', '/var/tmp'))
try:
    p = os.path.join(d, 't.rs')
    open(p, 'w').write('use vstd::prelude::*;\nverus!{ fn f(x: u8) -> (r: u8) requires x < 10 ensures r == x + 1 { x + 1 } }\nfn main(){}\n')
    r = subprocess.run(['verus', p], capture_output=True, text=True, cwd=d)
    ok1 = '1 verified, 0 errors' in r.stdout
    r2 = subprocess.run(['cargo', 'kani', '--version'], capture_output=True, text=True)
    ok2 = r2.returncode == 0
    print('verus selftest:', 'ok' if ok1 else 'FAILED ' + r.stdout[-300:] + r.stderr[-300:])
    print('kani selftest:', 'ok' if ok2 else 'FAILED')
    sys.exit(0 if ok1 and ok2 else 1)
finally:
    import shutil
    shutil.rmtree(d, ignore_errors=True)
