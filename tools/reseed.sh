#!/bin/sh
# usage: tools/reseed.sh <seed-id> <worktree> <check-ids...>
# re-run checks against an already-recorded seeded change (seeded/<id>/patch.diff) applied in a scratch worktree
set -u
ID=$1; WT=$2; shift 2
OUT=/verif/seeded/$ID
cd $WT && git checkout -q -- . && git apply $OUT/patch.diff || { echo "patch does not apply"; exit 3; }
VERDICTS=""
for c in "$@"; do
  cd /verif && VERIF_REPO=$WT ./check $c > $OUT/check_$c.log 2>&1; rc=$?
  grep -E "^VIOLATION|^UNDECIDED|tier=" $OUT/check_$c.log | cut -c1-260
  VERDICTS="$VERDICTS $c:rc=$rc"
done
cd $WT && git checkout -q -- .
python3 - "$ID" "$VERDICTS" <<'PY'
import json,sys
i,ver=sys.argv[1:3]
p='/verif/seeded/%s/meta.json'%i
m=json.load(open(p)); m['checks_run']=ver.split(); json.dump(m,open(p,'w'),indent=1)
PY
