#!/bin/sh
# usage: tools/runall.sh [quick|thorough] [ids...]   run the registered checks one after the other against
# VERIF_REPO (default /repo), log to logs/runall_<tier>_<id>.log, print one line per property
TIER=${1:-quick}; [ $# -gt 0 ] && shift
cd /verif
IDS="$@"
[ -z "$IDS" ] && IDS=$(python3 -c "
import json; print(' '.join(c['property_id'] for c in json.load(open('/verif/MANIFEST.json'))['checks']))")
mkdir -p logs
for id in $IDS; do
  s=$(date +%s)
  ./check $id --tier $TIER > logs/runall_${TIER}_$id.log 2>&1; rc=$?
  e=$(date +%s)
  echo "$id rc=$rc $((e-s))s $(grep -E 'tier=' logs/runall_${TIER}_$id.log | cut -c1-160)"
  grep -E '^VIOLATION|^UNDECIDED|^KNOWN' logs/runall_${TIER}_$id.log | cut -c1-240
done
echo ALLDONE
