"""Kani route: overlay on a scratch copy of the real crate, run harnesses, classify.

The overlay only ADDS text to the scratch copy:
  * `#[cfg(kani)] #[path = "..."] mod verif_kani_<name>;` at the end of the attached source file
    (a child module sees the parent's private items);
  * native contract attributes (`#[kani::requires/ensures/modifies]`), each wrapped in
    `#[cfg_attr(kani, ...)]`, on the line above the function named by a //@contract block;
  * `#![cfg_attr(kani, feature(...))]` in lib.rs when asked.
Function bodies are byte-for-byte those of /repo's working tree.
"""
import json
import os
import re
import shutil
import signal
import subprocess
import sys
import threading
import time

sys.path.insert(0, os.path.dirname(os.path.abspath(__file__)))
from rustlex import LostAnchor, locate, code_mask, find_code, next_open_brace, match_brace  # noqa: E402

VERIF = os.path.dirname(os.path.dirname(os.path.abspath(__file__)))
KANI_DIR = os.path.join(VERIF, 'contracts', 'kani')


def parse_module(path):
    """Read the //@ header of a harness module."""
    mod = {'path': path, 'name': os.path.splitext(os.path.basename(path))[0], 'attach': None,
           'contracts': [], 'harnesses': [], 'holes': [], 'features': []}
    cur = None
    with open(path) as f:
        for line in f:
            s = line.strip()
            if not s.startswith('//@'):
                if s.startswith('//') or s == '':
                    continue
                break
            body = s[3:].strip()
            if body.startswith('attach '):
                mod['attach'] = body[7:].strip()
            elif body.startswith('contract '):
                parts = [p.strip() for p in body[9:].split(' :: ')]
                cur = {'file': parts[0], 'path': parts[1:], 'attrs': []}
                mod['contracts'].append(cur)
            elif body.startswith('#['):
                if cur is None:
                    raise ValueError('%s: attribute outside //@contract' % path)
                cur['attrs'].append(body)
            elif body.startswith('harness '):
                kv = dict(x.split('=', 1) for x in body[8:].split())
                kv['props'] = kv.get('props', '').split(',')
                kv.setdefault('tier', 'quick')
                kv.setdefault('label', 'bounded')
                kv.setdefault('timeout', '900')
                kv['module'] = mod['name']
                mod['harnesses'].append(kv)
            elif body.startswith('hole '):
                mod['holes'].append(body[5:].strip())
            elif body.startswith('needs '):
                mod.setdefault('needs', []).extend(body[6:].split())
            elif body.startswith('feature '):
                mod['features'].append(body[8:].strip())
    return mod


def all_modules():
    mods = []
    for fn in sorted(os.listdir(KANI_DIR)):
        if fn.endswith('.rs'):
            mods.append(parse_module(os.path.join(KANI_DIR, fn)))
    return mods


def _install_module(mod, crate, gen_dir, holes, notes, features):
    """All anchor resolution (which may raise LostAnchor) happens before anything is written, so that a module
    that cannot be installed on this tree leaves the overlay untouched."""
    if not mod['attach']:
        raise ValueError('%s has no //@attach' % mod['path'])
    with open(mod['path']) as f:
        text = f.read()
    # fill hole placeholders with text extracted from /repo by the Verus extractor
    for h in re.findall(r'/\*@HOLE (\w+)@\*/', text):
        if not holes or h not in holes:
            raise LostAnchor('kani module %s needs hole %s which the extractor did not produce' % (mod['name'], h))
        text = text.replace('/*@HOLE %s@*/' % h, holes[h]['content'])
    # /*@BODY file :: seg :: fn name@*/ : the body block of a real function, cut from the tree
    # under check on every run (for functions whose real signature drags in types CBMC cannot
    # afford; the harness supplies a shim receiver and states it)
    for spec in re.findall(r'/\*@BODY (.*?)@\*/', text):
        segs = [x.strip() for x in spec.split(' :: ')]
        fp = os.path.join(crate, segs[0])
        if not os.path.exists(fp):
            raise LostAnchor('BODY source %s missing' % segs[0])
        with open(fp) as f:
            fsrc = f.read()
        st, en = locate(fsrc, segs[1:])
        item = fsrc[st:en]
        imask = code_mask(item)
        fm = next(find_code(item, imask, r'\bfn\s+\w+'), None)
        ob = next_open_brace(item, imask, fm.end()) if fm else -1
        if ob < 0:
            raise LostAnchor('BODY %s: no body' % spec)
        text = text.replace('/*@BODY %s@*/' % spec, item[ob:match_brace(item, imask, ob) + 1])
    # /*@SLICE file :: segs.. :: from "A" [occ N] to "B"@*/ : the text of the named function between the
    # N-th occurrence of A (exclusive) and the next occurrence of B (exclusive), cut from the tree under
    # check on every run: an expression of a function that is otherwise out of CBMC's reach
    for spec in re.findall(r'/\*@SLICE (.*?)@\*/', text):
        msl = re.match(r'(.*) :: from "(.*?)"(?: occ (\d+))? to "(.*?)"\s*$', spec)
        if not msl:
            raise LostAnchor('bad SLICE placeholder %r' % spec)
        segs = [x.strip() for x in msl.group(1).split(' :: ')]
        fp = os.path.join(crate, segs[0])
        if not os.path.exists(fp):
            raise LostAnchor('SLICE source %s missing' % segs[0])
        with open(fp) as f:
            fsrc = f.read()
        st, en = locate(fsrc, segs[1:])
        item = fsrc[st:en]
        a_, occ_, b_ = msl.group(2), int(msl.group(3) or 1), msl.group(4)
        # anchors are matched modulo whitespace, so that rustfmt's line breaking does not matter
        def ws_pat(t):
            return r'\s*'.join(re.escape(tok) for tok in re.findall(r'\w+|[^\w\s]', t))
        ms = list(re.finditer(ws_pat(a_), item))
        if len(ms) < occ_:
            raise LostAnchor('SLICE %s: %r occurs %d time(s)' % (segs[-1], a_, len(ms)))
        startp = ms[occ_ - 1].end()
        mb = re.compile(ws_pat(b_)).search(item, startp)
        if not mb:
            raise LostAnchor('SLICE %s: %r not found after %r' % (segs[-1], b_, a_))
        piece = item[startp:mb.start()].strip().rstrip(',').strip()
        text = text.replace('/*@SLICE %s@*/' % spec, piece)
    mod_path = os.path.join(gen_dir, mod['name'] + '.rs')
    target = os.path.join(crate, mod['attach'])
    if not os.path.exists(target):
        raise LostAnchor('attach target %s missing' % mod['attach'])
    pending = {}      # file -> new text (contracts), written only when every anchor has been found
    local_notes = []
    # native contracts
    by_file = {}
    for c in mod['contracts']:
        by_file.setdefault(c['file'], []).append(c)
    for rel, cs in by_file.items():
        p = os.path.join(crate, rel)
        with open(p) as f:
            src = f.read()
        inserts = []
        for c in cs:
            start, end = locate(src, c['path'])
            item = src[start:end]
            mask = code_mask(item)
            m = next(find_code(item, mask, r'(?:\bpub(?:\([^)]*\))?\s+)?(?:const\s+)?(?:unsafe\s+)?\bfn\s+\w+'), None)
            if m is None:
                raise LostAnchor('contract target %s: fn not found' % '::'.join(c['path']))
            pos = start + m.start()
            ls = src.rfind('\n', 0, pos) + 1
            indent = src[ls:pos]
            txt = ''.join('%s#[cfg_attr(kani, %s)]\n' % (indent, a[2:-1]) for a in c['attrs'])
            inserts.append((ls, txt))
            local_notes.append('contract on %s::%s (%d attrs)' % (rel, '::'.join(c['path']), len(c['attrs'])))
        for pos, txt in sorted(inserts, reverse=True):
            src = src[:pos] + txt + src[pos:]
        pending[p] = src
    # ---- nothing below raises LostAnchor ----
    for p, src in pending.items():
        with open(p, 'w') as f:
            f.write(src)
    with open(mod_path, 'w') as f:
        f.write(text)
    with open(target, 'a') as f:
        f.write('\n#[cfg(kani)]\n#[path = "%s"]\nmod verif_kani_%s;\n' % (mod_path, mod['name']))
    features.update(mod['features'])
    notes.extend(local_notes)


def build_overlay(repo, scratch, modules, holes=None):
    """Copy the crate and add the harness modules.  Returns notes (list of str)."""
    os.makedirs(scratch, exist_ok=True)
    crate = os.path.join(scratch, "crate")
    if os.path.exists(crate):
        shutil.rmtree(crate)
    subprocess.run(['rsync', '-a', '--exclude', 'target', '--exclude', '.git', '--exclude', 'result',
                    repo.rstrip('/') + '/', crate + '/'], check=True)
    notes = []
    features = set()
    gen_dir = os.path.join(scratch, 'kani_gen')
    os.makedirs(gen_dir, exist_ok=True)
    failed = []
    for mod in modules:
        try:
            _install_module(mod, crate, gen_dir, holes, notes, features)
        except LostAnchor as e:
            failed.append((mod['name'], str(e)))
    if features:
        lib = os.path.join(crate, 'src', 'lib.rs')
        with open(lib) as f:
            src = f.read()
        src = '#![cfg_attr(kani, feature(%s))]\n' % ', '.join(sorted(features)) + src
        with open(lib, 'w') as f:
            f.write(src)
    os.makedirs(os.path.join(crate, '.cargo'), exist_ok=True)
    with open(os.path.join(crate, '.cargo', 'config.toml'), 'a') as f:
        f.write('\n[net]\noffline = true\n')
    return crate, notes, failed


def _rss_watch(proc, cap_kb, flag):
    """Kill the process group if a verifier process of THIS run exceeds the RSS cap."""
    try:
        pgid = os.getpgid(proc.pid)
    except OSError:
        return
    while proc.poll() is None:
        try:
            out = subprocess.run(['ps', '-eo', 'pid,pgid,rss,comm'], capture_output=True, text=True).stdout
            tot = 0
            for line in out.split('\n')[1:]:
                f = line.split()
                if len(f) >= 4 and int(f[1]) == pgid and f[3] in ('cbmc', 'kani-compiler', 'goto-instrument', 'cadical', 'kissat'):
                    tot = max(tot, int(f[2]))
            if tot > cap_kb:
                flag.append('RSS cap exceeded (%d MB)' % (tot // 1024))
                os.killpg(pgid, signal.SIGKILL)
                return
        except Exception:
            pass
        time.sleep(2)


def run_cargo_kani(crate, harness_names, jobs=8, timeout=1500, extra=None, rss_cap_gb=10, log_path=None):
    cmd = ['cargo', 'kani', '-Z', 'function-contracts', '-Z', 'stubbing', '--output-format', 'terse', '-j', str(jobs)]
    for h in harness_names:
        cmd += ['--harness', h]
    if extra:
        cmd += extra
    env = dict(os.environ)
    env['CARGO_NET_OFFLINE'] = 'true'
    env.pop('RUSTUP_TOOLCHAIN', None)
    t0 = time.time()
    proc = subprocess.Popen(cmd, cwd=crate, env=env, stdout=subprocess.PIPE, stderr=subprocess.STDOUT, text=True,
                            start_new_session=True)
    flag = []
    th = threading.Thread(target=_rss_watch, args=(proc, rss_cap_gb * 1024 * 1024, flag), daemon=True)
    th.start()
    try:
        out, _ = proc.communicate(timeout=timeout)
        timed_out = False
    except subprocess.TimeoutExpired:
        os.killpg(os.getpgid(proc.pid), signal.SIGKILL)
        out, _ = proc.communicate()
        timed_out = True
    if log_path:
        with open(log_path, 'w') as f:
            f.write(out)
    return {'cmd': ' '.join(cmd), 'out': out, 'rc': proc.returncode, 'timeout': timed_out, 'killed': flag,
            'wall_s': time.time() - t0}


def parse_kani_output(out, harness_names):
    """Per-harness result from terse output.  With -j the output of different harnesses is
    interleaved but every block is prefixed by `Thread k:`; blocks are attributed by thread."""
    cur = {}       # thread -> harness short name
    blocks = {}    # harness short name -> text
    active = None
    for line in out.split('\n'):
        m = re.match(r'^(?:Thread (\d+): )?Checking harness (\S+?)\.\.\.', line)
        if m:
            th = m.group(1) or '0'
            short = m.group(2).split('::')[-1]
            cur[th] = short
            blocks.setdefault(short, '')
            blocks[short] += 'FULLNAME ' + m.group(2) + '\n'
            active = short if m.group(1) is None else None
            continue
        m = re.match(r'^Thread (\d+): ?(.*)$', line)
        if m:
            th = m.group(1)
            active = cur.get(th)
            if active:
                blocks[active] += m.group(2) + '\n'
            continue
        if active:
            blocks[active] += line + '\n'
    res = {}
    for short, b in blocks.items():
        fm = re.search(r'FULLNAME (\S+)', b)
        r = {'full_name': fm.group(1) if fm else short, 'status': 'unknown', 'checks_total': 0, 'checks_failed': 0,
             'failed_checks': [], 'cover': [], 'time_s': None, 'unwinding_failed': False, 'stubs': re.findall(r'- Stub: (.*)', b)}
        m = re.search(r'\*\* (\d+) of (\d+) failed', b)
        if m:
            r['checks_failed'], r['checks_total'] = int(m.group(1)), int(m.group(2))
        m = re.search(r'VERIFICATION:- (SUCCESSFUL|FAILED)', b)
        if m:
            r['status'] = 'ok' if m.group(1) == 'SUCCESSFUL' else 'failed'
        for fm in re.finditer(r'Failed Checks: (.*)\n(?:\s*File: "([^"]*)", line (\d+), in (\S+))?', b):
            r['failed_checks'].append({'desc': fm.group(1).strip(), 'file': fm.group(2), 'line': fm.group(3), 'fn': fm.group(4)})
            if 'unwinding assertion' in fm.group(1):
                r['unwinding_failed'] = True
        m = re.search(r'\*\* (\d+) of (\d+) cover properties satisfied', b)
        if m:
            r['cover'] = [int(m.group(1)), int(m.group(2))]
        m = re.search(r'Verification Time: ([\d.]+)s', b)
        if m:
            r['time_s'] = float(m.group(1))
        if 'timed out' in b.lower():
            r['status'] = 'timeout'
        if 'CBMC failed' in b or 'out of memory' in b.lower() or 'Segmentation' in b:
            r['status'] = 'crash'
        r['text'] = b[-3000:]
        res[short] = r
    for h in harness_names:
        if h not in res:
            res[h] = {'full_name': h, 'status': 'missing', 'checks_total': 0, 'checks_failed': 0, 'failed_checks': [],
                      'cover': [], 'time_s': None, 'unwinding_failed': False, 'stubs': [], 'text': ''}
    return res
