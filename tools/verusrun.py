"""Run one Verus unit generated from /repo and classify the outcome.

Outcome classes (DESIGN.md 2.2):
  ok         every obligation discharged, vacuity twin behaved
  violation  a Verus *verification* error on an obligation (postcondition / precondition /
             invariant / assertion / overflow / decreases)
  undecided  front-end (rustc / Verus mode / unsupported) error, lost anchor, rlimit,
             timeout, tool crash, or a vacuous precondition found by the twin
"""
import json
import os
import re
import subprocess
import sys
import time

sys.path.insert(0, os.path.dirname(os.path.abspath(__file__)))
import extract  # noqa: E402
from rustlex import LostAnchor, code_mask, match_brace, find_code, next_open_brace  # noqa: E402

VERIF = os.path.dirname(os.path.dirname(os.path.abspath(__file__)))
VERUS_DIR = os.path.join(VERIF, 'contracts', 'verus')

VERIFICATION_MSGS = [
    ('postcondition not satisfied', 'post'),
    ('precondition not satisfied', 'pre'),
    ('invariant not satisfied before loop', 'inv-entry'),
    ('invariant not satisfied at end of loop body', 'inv-preserved'),
    ('loop invariant not satisfied', 'inv'),
    ('invariant not satisfied', 'inv'),
    ('assertion failed', 'assert'),
    ('possible arithmetic underflow/overflow', 'overflow'),
    ('possible division by zero', 'div0'),
    ('decreases not satisfied', 'decreases'),
    ('could not prove termination', 'decreases'),
    ('possible bit shift underflow/overflow', 'overflow'),
    ('unreachable', 'unreachable'),
    ('failed to verify', 'other'),
]
UNDECIDED_MSGS = ['rlimit', 'resource limit', 'timed out', 'while loop: not all errors', 'function body check: not all errors']


def fn_ranges(text):
    """[(name, start_line, end_line, kind)] for every fn with a body in generated text."""
    mask = code_mask(text)
    res = []
    for m in find_code(text, mask, r'\bfn\s+(\w+)'):
        ob = next_open_brace(text, mask, m.end())
        if ob < 0:
            continue
        try:
            cb = match_brace(text, mask, ob)
        except LostAnchor:
            continue
        ls = text.rfind('\n', 0, m.start()) + 1
        prefix = text[ls:m.start()]
        kind = 'proof' if re.search(r'\bproof\b', prefix) else ('spec' if re.search(r'\bspec\b', prefix) else 'exec')
        res.append((m.group(1), text.count('\n', 0, m.start()) + 1, text.count('\n', 0, cb) + 1, kind))
    return res


def enclosing_fn(ranges, line):
    best = None
    for name, s, e, kind in ranges:
        if s <= line <= e and (best is None or s >= best[1]):
            best = (name, s, e, kind)
    return best


def slug(s, n=48):
    s = re.sub(r'[^A-Za-z0-9]+', '-', s.strip()).strip('-')
    return s[:n].strip('-')


def run_verus(path, rlimit=None, seed=None, timeout=600, cwd=None, extra=None):
    cmd = ['verus', path, '--output-json', '--time', '--error-format=json', '--triggers-mode', 'silent',
           '--multiple-errors', '4'] + list(extra or [])
    if rlimit:
        cmd += ['--rlimit', str(rlimit)]
    if seed is not None:
        cmd += ['--smt-option', 'smt.random_seed=%d' % seed]
    t0 = time.time()
    try:
        p = subprocess.run(cmd, capture_output=True, text=True, timeout=timeout, cwd=cwd)
    except subprocess.TimeoutExpired:
        return {'timeout': True, 'cmd': ' '.join(cmd), 'wall_s': time.time() - t0, 'diags': [], 'json': None, 'rc': None, 'raw': ''}
    diags = []
    out_json = None
    # stderr: one JSON diagnostic per line; stdout: the --output-json document
    for line in p.stderr.split('\n'):
        line = line.strip()
        if line.startswith('{') and '"$message_type"' in line:
            try:
                diags.append(json.loads(line))
            except ValueError:
                pass
    try:
        start = p.stdout.index('{')
        out_json = json.loads(p.stdout[start:])
    except ValueError:
        out_json = None
    return {'timeout': False, 'cmd': ' '.join(cmd), 'wall_s': time.time() - t0, 'diags': diags, 'json': out_json,
            'rc': p.returncode, 'raw': (p.stderr[-4000:] if out_json is None else '')}


def resolve_span(span, path):
    """Map a span (possibly inside a macro expansion in another file) to the generated file."""
    base = os.path.basename(path)
    cur = span
    for _ in range(12):
        if cur is None:
            return None
        if os.path.basename(cur.get('file_name', '')) == base:
            out = dict(cur)
            out['is_primary'] = span.get('is_primary')
            out['label'] = span.get('label')
            return out
        exp = cur.get('expansion')
        cur = exp.get('span') if exp else None
    return None


def classify(diag):
    """-> ('verification', kind) | ('undecided', reason) | ('note', None)"""
    msg = diag.get('message', '')
    level = diag.get('level')
    if level not in ('error',):
        low = msg.lower()
        if any(u in low for u in ('rlimit', 'resource limit')):
            return ('undecided', msg)
        return ('note', None)
    if msg.startswith('aborting due to'):
        return ('note', None)
    low = msg.lower()
    if any(u in low for u in ('rlimit', 'resource limit', 'timed out')):
        return ('undecided', msg)
    if diag.get('code'):
        return ('undecided', 'rustc %s: %s' % (diag['code'].get('code'), msg))
    for text, kind in VERIFICATION_MSGS:
        if low.startswith(text):
            return ('verification', kind)
    return ('undecided', 'front-end: ' + msg)


def run_unit(unit, repo, scratch, tier='quick', seed=0, rlimit=None):
    """unit: name of contracts/verus/<unit>.vspec.  Returns a result dict."""
    res = {'unit': unit, 'backend': 'verus-z3', 'status': 'ok', 'failures': [], 'undecided': [],
           'functions': [], 'obligations': [], 'holes': {}, 'rewrites': {}, 'substs': [],
           'assumption_scan': [], 'solver_s': 0.0, 'wall_s': 0.0, 'vacuity': {}, 'cmd': ''}
    t0 = time.time()
    os.makedirs(scratch, exist_ok=True)
    gen = os.path.join(scratch, 'v_%s.rs' % unit)
    twin = os.path.join(scratch, 'v_%s_twin.rs' % unit)
    try:
        meta = extract.generate(repo, os.path.join(VERUS_DIR, unit + '.vspec'), gen, twin)
    except LostAnchor as e:
        res['status'] = 'undecided'
        res['undecided'].append('LOST-ANCHOR: %s' % e)
        res['wall_s'] = time.time() - t0
        return res
    except extract.SpecError as e:
        res['status'] = 'undecided'
        res['undecided'].append('SPEC-ERROR: %s' % e)
        res['wall_s'] = time.time() - t0
        return res
    res['functions'] = meta['functions']
    res['items'] = meta['items']
    res['holes'] = meta['holes']
    res['rewrites'] = meta['rewrites']
    res['substs'] = meta['substs']
    res['assumption_scan'] = meta['assumption_scan']
    res['verus_args'] = meta.get('verus_args', [])
    linemap = meta['linemap']
    with open(gen) as f:
        gen_text = f.read()
    gen_lines = gen_text.split('\n')
    ranges = fn_ranges(gen_text)

    # main run and twin run in parallel
    from concurrent.futures import ThreadPoolExecutor
    with ThreadPoolExecutor(max_workers=2) as ex:
        fut_main = ex.submit(run_verus, gen, rlimit, seed if tier == 'thorough' else None, 900, scratch, meta.get('verus_args'))
        fut_twin = ex.submit(run_verus, twin, rlimit, None, 900, scratch, meta.get('verus_args'))
        main = fut_main.result()
        tw = fut_twin.result()
    res['cmd'] = main['cmd']

    def origin_of(line):
        if 1 <= line <= len(linemap) and linemap[line - 1]:
            return linemap[line - 1]
        return None

    def label_near(line, line_end=None):
        """label of the failed clause: a `// #label` on any line of the clause's span (a multi-line
        clause carries its label on its last line), else on the line itself or - for a continuation
        line - on the nearest labelled line above within the same clause."""
        for j in range(line_end or line, line - 1, -1):
            o = origin_of(j)
            if o and o[0] == 'vspec' and o[3]:
                return o[3]
        j = line - 1
        while j >= 1:
            o = origin_of(j)
            if not o or o[0] != 'vspec':
                return None
            # stop climbing when the line above ends a different clause
            if gen_lines[j - 1].rstrip().split('//')[0].rstrip().endswith(','):
                return None
            if o[3]:
                return o[3]
            j -= 1
        return None

    if main['timeout']:
        res['status'] = 'undecided'
        res['undecided'].append('verus timeout')
    elif main['json'] is None:
        res['status'] = 'undecided'
        res['undecided'].append('verus produced no JSON (crash?): ' + main['raw'][-500:])
    else:
        j = main['json']
        vr = j.get('verification-results', {})
        # per-function obligations
        try:
            for mod in j['times-ms']['smt']['smt-run-module-times']:
                for fb in mod.get('function-breakdown', []):
                    res['obligations'].append({'function': fb['function'].split('::', 1)[-1], 'mode': fb.get('mode:'),
                                               'success': fb['success'], 'time_us': fb.get('time-micros', 0),
                                               'rlimit': fb.get('rlimit')})
            res['solver_s'] = j['times-ms']['smt'].get('smt-run', 0) / 1000.0
        except (KeyError, TypeError):
            pass
        seen = set()
        for d in main['diags']:
            cls, info = classify(d)
            if cls == 'note':
                continue
            spans = [resolve_span(s, gen) for s in d.get('spans', [])]
            spans = [s for s in spans if s is not None]
            prim = next((s for s in spans if s.get('is_primary')), spans[0] if spans else None)
            pline = prim['line_start'] if prim else 0
            if cls == 'undecided':
                res['undecided'].append('%s (generated line %d)' % (info, pline))
                continue
            kind = info
            # which span names the failed clause?
            clause_span = None
            for s in spans:
                lab = (s.get('label') or '')
                if 'failed this' in lab or 'failed precondition' in lab:
                    clause_span = s
            fn = enclosing_fn(ranges, pline)
            fname = fn[0] if fn else '?'
            clause_line = clause_span['line_start'] if clause_span else pline
            clause_text = gen_lines[clause_line - 1].strip() if 0 < clause_line <= len(gen_lines) else ''
            clause_end = clause_span['line_end'] if clause_span else (prim['line_end'] if prim else pline)
            lab = label_near(clause_line, clause_end)
            site_text = gen_lines[pline - 1].strip() if 0 < pline <= len(gen_lines) else ''
            if not lab:
                lab = slug(clause_text if clause_span else site_text)
            oid = '%s/%s/%s/%s' % (unit, fname, kind, lab)
            if oid in seen:
                continue
            seen.add(oid)
            res['failures'].append({
                'obligation': oid, 'function': fname, 'kind': kind, 'message': d.get('message'),
                'site': {'generated_line': pline, 'text': site_text, 'origin': origin_of(pline)},
                'clause': {'generated_line': clause_line, 'text': clause_text, 'origin': origin_of(clause_line)},
                'rendered': d.get('rendered', '')[:3000],
            })
        if res['failures']:
            res['status'] = 'violation'
        if res['undecided']:
            # an undecided front-end error dominates: nothing else can be believed
            hard = [u for u in res['undecided'] if not u.startswith('while loop') and 'not all errors' not in u]
            if hard:
                res['status'] = 'undecided'
        if not vr.get('success') and res['status'] == 'ok':
            res['status'] = 'undecided'
            res['undecided'].append('verus reported failure without a classified diagnostic: ' + json.dumps(vr))
        res['verified_count'] = vr.get('verified', 0)
        res['error_count'] = vr.get('errors', 0)

    # vacuity twin: each ENTRY probe must fail
    probes = {}
    with open(twin) as f:
        for no, line in enumerate(f, 1):
            m = re.search(r'VACUITY-PROBE (.*)$', line)
            if m:
                probes[no] = m.group(1).strip()
    failed_probe_lines = set()
    if not tw['timeout'] and tw['json'] is not None:
        for d in tw['diags']:
            if d.get('level') == 'error' and d.get('message', '').startswith('assertion failed'):
                for s in d.get('spans', []):
                    failed_probe_lines.add(s['line_start'])
        twin_frontend = [d['message'] for d in tw['diags'] if classify(d)[0] == 'undecided']
    else:
        twin_frontend = ['twin run timeout/crash']
    for no, q in probes.items():
        res['vacuity'][q] = 'reachable' if no in failed_probe_lines else 'NOT-SHOWN-REACHABLE'
    if res['status'] == 'ok':
        bad = [q for q, v in res['vacuity'].items() if v != 'reachable']
        if bad or (twin_frontend and not failed_probe_lines):
            res['status'] = 'undecided'
            res['undecided'].append('vacuity guard: entry of %s not shown reachable (contradictory precondition?) %s' % (bad, twin_frontend[:2]))
    res['wall_s'] = time.time() - t0
    return res
