"""Minimal Rust lexing helpers: code mask, brace matching, item location.

Only what the extractor needs: tell code from comments/strings, match braces,
find `fn`/`struct`/`impl` items by header.  No parsing of expressions.
"""
import re


class LostAnchor(Exception):
    """An anchor (item, loop ordinal, statement text, hole context) was not found
    exactly as many times as declared.  Maps to exit 2 (undecided), never a violation."""


def code_mask(src):
    """Return a list of booleans, True where the character is code (not inside a
    comment, string literal, raw string or char literal)."""
    n = len(src)
    mask = [True] * n
    i = 0
    while i < n:
        c = src[i]
        if c == '/' and i + 1 < n and src[i + 1] == '/':
            j = src.find('\n', i)
            if j < 0:
                j = n
            for k in range(i, j):
                mask[k] = False
            i = j
        elif c == '/' and i + 1 < n and src[i + 1] == '*':
            depth = 1
            j = i + 2
            while j < n and depth > 0:
                if src.startswith('/*', j):
                    depth += 1
                    j += 2
                elif src.startswith('*/', j):
                    depth -= 1
                    j += 2
                else:
                    j += 1
            for k in range(i, j):
                mask[k] = False
            i = j
        elif c == '"' or (c in 'rb' and re.match(r'(?:b?r#*"|b")', src[i:i + 8]) and
                          (i == 0 or not (src[i - 1].isalnum() or src[i - 1] == '_'))):
            m = re.match(r'b?r(#*)"', src[i:])
            if m:
                hashes = m.group(1)
                end = src.find('"' + hashes, i + m.end())
                j = n if end < 0 else end + 1 + len(hashes)
            else:
                j = i + (2 if c == 'b' else 1)
                while j < n and src[j] != '"':
                    j += 2 if src[j] == '\\' else 1
                j += 1
            for k in range(i, min(j, n)):
                mask[k] = False
            i = j
        elif c == "'":
            # char literal or lifetime
            m = re.match(r"'(?:\\(?:x[0-9a-fA-F]{2}|u\{[0-9a-fA-F]+\}|.)|[^'\\])'", src[i:])
            if m:
                for k in range(i, i + m.end()):
                    mask[k] = False
                i += m.end()
            else:
                i += 1
        else:
            i += 1
    return mask


def match_brace(src, mask, open_pos):
    """open_pos indexes a '{' (or '(' / '['); return index of the matching closer."""
    opener = src[open_pos]
    closer = {'{': '}', '(': ')', '[': ']'}[opener]
    depth = 0
    for i in range(open_pos, len(src)):
        if not mask[i]:
            continue
        if src[i] == opener:
            depth += 1
        elif src[i] == closer:
            depth -= 1
            if depth == 0:
                return i
    raise LostAnchor("unbalanced %r at offset %d" % (opener, open_pos))


def find_code(src, mask, pattern, start=0, end=None):
    """Yield regex matches of `pattern` whose first character is code."""
    end = len(src) if end is None else end
    for m in re.finditer(pattern, src[:end]):
        if m.start() >= start and mask[m.start()]:
            yield m


def next_open_brace(src, mask, pos, end=None):
    """First '{' at paren/bracket depth 0 at or after pos (code only)."""
    end = len(src) if end is None else end
    depth = 0
    i = pos
    while i < end:
        if mask[i]:
            ch = src[i]
            if ch in '([':
                depth += 1
            elif ch in ')]':
                depth -= 1
            elif ch == '{' and depth == 0:
                return i
            elif ch == ';' and depth == 0:
                return -1
        i += 1
    return -1


def item_start(src, pos):
    """Walk back from the keyword at pos over `pub`, attributes and doc comments to the
    start of the item (start of its first line)."""
    line_start = src.rfind('\n', 0, pos) + 1
    start = line_start
    while start > 0:
        prev_end = start - 1
        prev_start = src.rfind('\n', 0, prev_end) + 1
        line = src[prev_start:prev_end].strip()
        if line.startswith('///') or line.startswith('#[') or line.startswith('//!'):
            start = prev_start
        else:
            break
    return start


def locate(src, path):
    """Locate an item by a path like ['impl SpeechGenerator', 'fn generate_step'] or
    ['struct Foo'] or ['fn free'].  Returns (start, end) offsets of the item, doc comments
    and attributes included.  `impl X` matches `impl<..> X<..>` and `impl Trait for X`
    must be written as 'impl Trait for X'."""
    mask = code_mask(src)
    lo, hi = 0, len(src)
    for k, seg in enumerate(path):
        kind, _, name = seg.partition(' ')
        name = name.strip()
        if kind == 'impl':
            # name may be 'Type' or 'Trait for Type'
            parts = [re.escape(p) for p in name.split()]
            # allow generic args after each identifier
            tail_b = r'\b' if re.match(r'\w', name[-1]) else ''
            pat = r'\bimpl\b\s*(?:<[^{};]*?>)?\s*' + r'\s*(?:<[^{};]*?>)?\s+'.join(parts) + tail_b + r'\s*(?:<[^{};]*?>)?\s*(?:where[^{]*)?\{'
        elif kind in ('fn', 'struct', 'enum', 'trait', 'mod', 'type', 'const'):
            pat = r'\b' + kind + r'\s+' + re.escape(name) + r'\b'
        else:
            raise LostAnchor('unknown item kind %r' % seg)
        found = [m for m in find_code(src, mask, pat, lo, hi)]
        # restrict to items at brace depth 0 relative to [lo,hi)
        cands = []
        for m in found:
            depth = 0
            for i in range(lo, m.start()):
                if mask[i]:
                    if src[i] == '{':
                        depth += 1
                    elif src[i] == '}':
                        depth -= 1
            if depth == 0:
                cands.append(m)
        if len(cands) != 1:
            raise LostAnchor('item %r matched %d times' % (' :: '.join(path[:k + 1]), len(cands)))
        m = cands[0]
        if kind == 'impl':
            ob = m.end() - 1
        elif kind in ('type', 'const'):
            semi = src.find(';', m.end())
            return item_start(src, m.start()), semi + 1
        else:
            ob = next_open_brace(src, mask, m.end(), hi)
            if ob < 0:
                # tuple struct / unit struct ending in ';'
                semi = src.find(';', m.end())
                s = item_start(src, m.start())
                if k == len(path) - 1:
                    return s, semi + 1
                raise LostAnchor('item %r has no body' % seg)
        cb = match_brace(src, mask, ob)
        if k == len(path) - 1:
            return item_start(src, m.start()), cb + 1
        lo, hi = ob + 1, cb
    raise LostAnchor('empty path')
