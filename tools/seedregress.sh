#!/bin/sh
# usage: tools/seedregress.sh [seed-ids...]   re-run, for every recorded seeded change, the check of its
# property against a scratch worktree of /repo HEAD with seeded/<id>/patch.diff applied; update meta.json
# (verdict per check) and print one line per seed.  The worktree lives under /var/tmp and is removed.
cd /verif
WT=${SEEDWT:-/var/tmp/seedwt}
git -C /repo worktree remove --force $WT 2>/dev/null
git -C /repo worktree add -q --detach $WT HEAD || exit 3
IDS="$@"; [ -z "$IDS" ] && IDS=$(ls seeded)
for sd in $IDS; do
  prop=${sd%%-*}
  (cd $WT && git checkout -q -- . && git apply /verif/seeded/$sd/patch.diff) || { echo "$sd: patch does not apply to HEAD"; continue; }
  VERIF_REPO=$WT ./check $prop > seeded/$sd/check_$prop.log 2>&1; rc=$?
  nv=$(grep -c '^VIOLATION' seeded/$sd/check_$prop.log)
  echo "$sd rc=$rc violations=$nv $(grep -E 'tier=' seeded/$sd/check_$prop.log | cut -c1-150)"
  python3 - "$sd" "$prop" "$rc" <<'PY'
import json,sys,re
sd,prop,rc=sys.argv[1:4]
p='/verif/seeded/%s/meta.json'%sd
m=json.load(open(p))
log=open('/verif/seeded/%s/check_%s.log'%(sd,prop)).read()
m['property']=prop
m['checks_run']=['%s:rc=%s'%(prop,rc)]
m['verdict']={'0':'MISSED (exit 0)','1':'DETECTED (exit 1)','2':'UNDECIDED (exit 2)'}.get(rc,'rc='+rc)
m['violated_obligations']=re.findall(r'obligation=(\S+)',log)
json.dump(m,open(p,'w'),indent=1)
PY
done
git -C /repo worktree remove --force $WT
echo ALLDONE
