"""Syntactic side conditions that back ASSUMED contracts (never counted as proved).

vocoder_no_hidden_state: the abstract vocoder contract says Vocoder::synthesize is a deterministic
function of (its own fields, its arguments).  For safe Rust that holds unless the code reaches global
or interior-mutable state, randomness, time or the environment; this scan looks for the constructs
through which it could."""
import os
import re
import sys

sys.path.insert(0, os.path.dirname(os.path.abspath(__file__)))
from rustlex import code_mask  # noqa: E402

PATTERNS = [
    (r'\bunsafe\b', 'unsafe code'),
    (r'\bstatic\s+(mut\s+)?[A-Z_]', 'static item'),
    (r'\b(Cell|RefCell|UnsafeCell|OnceCell|OnceLock|LazyLock|Mutex|RwLock)\b', 'interior mutability'),
    (r'\bAtomic[A-Z]\w*', 'atomic'),
    (r'\bthread_local!', 'thread-local state'),
    (r'\b(rand|getrandom)::', 'external randomness'),
    (r'\b(Instant|SystemTime)\b', 'time'),
    (r'\bstd::(env|fs|net|process)\b', 'environment / IO'),
]


def vocoder_no_hidden_state(repo):
    hits = []
    root = os.path.join(repo, 'src', 'vocoder')
    nfiles = 0
    for d, _, files in os.walk(root):
        for fn in sorted(files):
            if not fn.endswith('.rs'):
                continue
            if fn == 'fir_simd.rs':
                continue   # compiled only with the non-default `simd` feature (cfg_attr path in mlsa/mod.rs): out of scope
            nfiles += 1
            p = os.path.join(d, fn)
            src = open(p).read()
            mask = code_mask(src)
            for pat, what in PATTERNS:
                for m in re.finditer(pat, src):
                    if mask[m.start()]:
                        line = src.count('\n', 0, m.start()) + 1
                        hits.append({'file': os.path.relpath(p, repo), 'line': line, 'what': what,
                                     'text': src.split('\n')[line - 1].strip()[:120]})
    return {'name': 'vocoder_no_hidden_state', 'files': nfiles, 'hits': hits}


SCANS = {'vocoder_no_hidden_state': vocoder_no_hidden_state}
