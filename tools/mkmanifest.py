#!/usr/bin/env python3
"""Regenerate MANIFEST.json from tools/props.py (claimed) + NOT_APPLICABLE below."""
import json, os, sys
VERIF = os.path.dirname(os.path.dirname(os.path.abspath(__file__)))
sys.path.insert(0, os.path.join(VERIF, 'tools'))
from props import PROPS, NOT_APPLICABLE, HOOK_COMMITS

ids = [json.loads(l)['id'] for l in open(os.path.join(VERIF, 'properties.jsonl'))]
checks = []
for pid in ids:
    if pid not in PROPS:
        continue
    c = PROPS[pid]
    checks.append({
        'property_id': pid,
        'quick_cmd': './check %s --tier quick' % pid,
        'thorough_cmd': './check %s --tier thorough' % pid,
        'evidence_file': 'evidence/%s.json' % pid,
        'replay_cmd_template': './check %s --replay {path}' % pid,
        'engine': 'contracts',
        'level_claimed': {'category': 'proof', 'text': c['level_text'], 'design_ref': c.get('design_ref', 'DESIGN.md section 4, ' + pid)},
        'level_note': c['level_note'],
        'technique': c['technique'],
    })
na = [{'property_id': pid, 'reason': NOT_APPLICABLE[pid]} for pid in ids if pid not in PROPS]
missing = [pid for pid in ids if pid not in PROPS and pid not in NOT_APPLICABLE]
assert not missing, missing
m = {
    'version': 1,
    'setup_cmd': 'python3 tools/selftest.py',
    'hooks': {
        'guard': 'cfg(kani)',
        'enable': 'no source hooks: contracts, harness modules and Verus units are added to scratch copies of /repo by tools/kanirun.py (overlay) and tools/extract.py on every run; cfg(kani) is set by cargo-kani itself',
        'baseline_off_cmd': 'cd /repo && cargo test --workspace --no-fail-fast --offline',
        'source_commits': HOOK_COMMITS,
        'add_only': True,
    },
    'engines': [{'name': 'contracts', 'path': 'check', 'serves_properties': [c['property_id'] for c in checks],
                 'kind_free_text': 'contract-based deductive verification: Verus (unbounded, on function text extracted from /repo every run) + Kani function contracts / harnesses on an overlay of the real crate'}],
    'checks': checks,
    'not_applicable': na,
    'notes': 'exit 2 = undecided (lost anchor, front-end error, timeout); fix commits in /repo are listed in known_findings.json as fixed entries',
}
json.dump(m, open(os.path.join(VERIF, 'MANIFEST.json'), 'w'), indent=1)
print('MANIFEST: %d checks, %d not_applicable' % (len(checks), len(na)))
