#!/bin/sh
# usage: tools/seedcheck.sh <seed-id> <worktree> <demo-file-name> <check-ids...>
# 1. confirm the seeded change: compiles, baseline tests unchanged, demo fails with / passes without
# 2. run the named checks against the changed tree (VERIF_REPO = worktree), record verdicts
set -u
ID=$1; WT=$2; DEMO=$3; shift 3
OUT=/verif/seeded/$ID
mkdir -p $OUT
cp $WT/seed_out/patch.diff $OUT/patch.diff
cp $WT/seed_out/$DEMO $OUT/
[ -f $WT/seed_out/NOTES.md ] && cp $WT/seed_out/NOTES.md $OUT/NOTES.md
cd $WT && git checkout -q -- . && rm -rf tests/verif_demo_*.rs
mkdir -p tests && cp seed_out/$DEMO tests/verif_demo_$ID.rs
DEMO_BASE=$(cargo test --offline --test verif_demo_$ID 2>&1 | grep -E "^test result" | tail -1)
git apply seed_out/patch.diff || { echo "patch does not apply"; exit 3; }
SUITE=$(cargo test --offline --lib 2>&1 | grep -E "^test result" | tail -1)
DEMO_MUT=$(cargo test --offline --test verif_demo_$ID 2>&1 | grep -E "^test result" | tail -1)
rm -rf tests
echo "suite with change: $SUITE"
echo "demo without change: $DEMO_BASE"
echo "demo with change: $DEMO_MUT"
VERDICTS=""
for c in "$@"; do
  cd /verif && VERIF_REPO=$WT ./check $c > $OUT/check_$c.log 2>&1; rc=$?
  grep -E "^VIOLATION|^UNDECIDED|tier=" $OUT/check_$c.log | cut -c1-260
  VERDICTS="$VERDICTS $c:rc=$rc"
done
cd $WT && git checkout -q -- . 
python3 - "$ID" "$SUITE" "$DEMO_BASE" "$DEMO_MUT" "$VERDICTS" "$DEMO" <<'PY'
import json,sys,os
i,suite,db,dm,ver,demo=sys.argv[1:7]
p='/verif/seeded/%s/meta.json'%i
m=json.load(open(p)) if os.path.exists(p) else {}
m.update({'id':i,'demo':demo,'suite_with_change':suite,'demo_without_change':db,'demo_with_change':dm,
          'checks_run':ver.split(),'ran':'tools/seedcheck.sh (applies patch.diff in a scratch worktree, cargo test --offline --lib, demo as tests/verif_demo_<id>.rs, then ./check <ID> with VERIF_REPO=<worktree>)'})
json.dump(m,open(p,'w'),indent=1)
PY
