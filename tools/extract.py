#!/usr/bin/env python3
"""Build a single-file Verus unit from a .vspec and /repo's current working tree.

The .vspec holds specification text only (spec fns, proof fns, external_body
signatures, requires/ensures/invariant clauses, proof blocks).  Every executable
function body in the generated file is copied from /repo at generation time; the
only changes made to that text are the declared rewrites, each counted and listed.

Directive summary (lines starting with //@):
  //@include FILE                     splice another spec fragment (relative to contracts/verus)
  //@float_axioms                     splice the f64 totality axiom group
  //@verus_arg ARG                    extra command-line argument for verus on this unit (listed in evidence)
  //@extract FILE :: SEG [:: SEG]     copy an item from /repo (SEG = 'impl T' | 'fn f' | 'struct S' ...)
      //@ret NAME [as T]              R10: name the return value  `-> T` => `-> (NAME: T)`; `as T` names an associated type at the verified instance (R17)
      //@spec                         following lines go between signature and body
      //@loop K                       following lines go before the body brace of the K-th loop
      //@loophead K KIND => "HDR" body "STMTS"   (next line: the expected current header) declared rewrite of a loop header
      //@afterloop K                  following lines go after the K-th loop statement
      //@inloop K                     following lines go at the start of the K-th loop's body
      //@entry                        following lines go at the start of the body
      //@before "TEXT" [occ N]        following lines go before the line containing TEXT
      //@after "TEXT" [occ N]         following lines go after the statement containing TEXT
      //@rw mutself                   R3: `mut self` => rebinding `self_`
      //@rw enumerate                 R7: `for (i, PAT) in E.iter().enumerate() {`  (also .rev())
      //@rw wildcard_closure          R9: `|_|` => `|_e|`
      //@rw name_iters                R13 as a rule: `for PAT in A..B` => `for PAT in iter: A..B` (ghost iterator name only)
      //@rw deref_buffer A,B          R15 as a rule: A[..] => A.buffer[..], A.len() => A.buffer.len() for the listed variables
      //@rw float_neg                 R16: unary `-(E)` / `-place` on floats => `f64_neg(..)` (contracted wrapper)
      //@rw cast_usize_f64            R6: `OPERAND as f64` => `usize_to_f64(OPERAND)` (operand: place or parenthesised expression)
      //@rw rev_loops                 R7: `for X in (A..B).rev()` => descending while loop over X_next
      //@rw float_opassign A,B        R4 as a rule: `LHS op= RHS;` => `LHS = LHS op (RHS);` when LHS starts with a listed name
      //@subst KIND "A" => "B" [count N]   declared literal rewrite (KIND in R4,R5,R6,R7,R11)
      //@hole NAME from "TEXT" [occ N] [until "{"|"}"] => "REPLACEMENT"   R8: expression from after TEXT up to the
                                      statement's terminating ';' becomes REPLACEMENT; content recorded
      //@stmthole NAME loop K => "REPLACEMENT"   R8 statement form: whole K-th loop statement
      //@attr #[...]                  add an attribute line above the fn (Verus-only attributes)
      //@keep_attrs                   do not strip attributes (default strips R1)
  //@end
R1 (strip pub / docs / attributes) and R2 (drop eprintln!) are always applied.
"""
import json
import os
import re
import sys

sys.path.insert(0, os.path.dirname(os.path.abspath(__file__)))
from rustlex import LostAnchor, code_mask, match_brace, find_code, next_open_brace, locate  # noqa: E402

VERUS_DIR = os.path.join(os.path.dirname(os.path.dirname(os.path.abspath(__file__))), 'contracts', 'verus')

SUBST_KINDS = {
    'R4': 'float compound assignment X op= E => X = X op E',
    'R5': '&mut V[a..] on a Vec => &mut V.as_mut_slice()[a..] (Vec\'s own IndexMut impl)',
    'R6': 'float<->integer `as` cast => named cast function with uninterpreted result',
    'R7': 'iterator-style loop header => index loop over the same sequence',
    'R11': 'std method call => same call through a wrapper fn whose spec is an assume_specification-style contract',
    'R12': 'pattern destructuring in closure/let position => field access',
    'R15': 'Deref of a deref_buffer! newtype made explicit: x[i] => x.buffer[i], x.len() => x.buffer.len(), and float compound assignment on it expanded (X op= E => X = X op E)',
    'R16': 'unary minus on a parenthesised float expression routed through the contracted wrapper f64_neg: -(E) => f64_neg(E)',
    'R18': 'file-level const of the source file, referenced by the extracted text and not defined in the unit, copied in as pub const',
    'R19': 'f64 library method without a specification in the unit => uninterpreted total specification (result == fx_NAME_spec(args)), spliced after float_axioms.inc',
    'R17': 'trait default method verified at one implementing type: the associated type / accessor is named at that instance (Self::Coef => Coefficients, self.alpha() => self.alpha)',
    'R14': 'explicit type ascription on a let (the type rustc infers; needed because spliced spec text mentions the variable before inference completes)',
    'R13': 'contract splice on a nested fn or closure header (adds specification text and a name for the return value; executable text unchanged)',
}


# R19: f64 library methods a unit does not give a specification of its own get an uninterpreted total
# specification (result == an uninterpreted function of the arguments), spliced after float_axioms.inc, so
# that a tree that starts to call one of them stays inside the verified subset and the unit's own
# postconditions decide whether the new call changes the result.  Nothing is assumed about the values.
FLOAT_EXTRAS = [('clamp', 3), ('max', 2), ('exp', 1), ('ln', 1), ('sqrt', 1), ('powf', 2), ('sin', 1), ('cos', 1),
                ('tan', 1), ('log2', 1), ('log10', 1), ('exp2', 1), ('copysign', 2), ('fract', 1), ('cbrt', 1),
                ('hypot', 2), ('atan2', 2), ('atan', 1), ('tanh', 1), ('to_radians', 1), ('to_degrees', 1),
                ('exp_m1', 1), ('ln_1p', 1)]


def add_float_extras(lines):
    last = -1
    for k, (text, f, no) in enumerate(lines):
        if f == 'float_axioms.inc':
            last = k
    if last < 0:
        return lines
    alltext = '\n'.join(t for t, _, _ in lines)
    declared = set(re.findall(r'assume_specification\s*\[\s*f64::(\w+)\s*\]', alltext))
    extra = []
    for name, n in FLOAT_EXTRAS:
        if name in declared:
            continue
        args = ['x', 'y', 'z'][:n]
        sig = ', '.join('%s: f64' % a for a in args)
        extra.append('pub uninterp spec fn fx_%s_spec(%s) -> f64;' % (name, sig))
        extra.append('pub assume_specification [f64::%s](%s) -> (r: f64) ensures r == fx_%s_spec(%s);'
                     % (name, sig, name, ', '.join(args)))
    out = lines[:last + 1] + [(t, 'float_axioms.inc', 0) for t in extra] + lines[last + 1:]
    return out


class SpecError(Exception):
    pass


class Edit:
    __slots__ = ('start', 'end', 'text', 'tag', 'prio')

    def __init__(self, start, end, text, tag):
        self.start, self.end, self.text, self.tag = start, end, text, tag
        self.prio = {'marker': 0, 'splice': 1}.get(tag, 2)


class Out:
    """Accumulates generated lines with an origin per line."""

    def __init__(self):
        self.lines = []   # (text, origin)
        self._cur = ''
        self._origin = None

    def add(self, text, origin_fn):
        """origin_fn(offset_in_text) -> origin tuple."""
        for idx, ch in enumerate(text):
            if ch == '\n':
                self.lines.append((self._cur, self._origin))
                self._cur, self._origin = '', None
            else:
                if self._origin is None and not ch.isspace():
                    self._origin = origin_fn(idx)
                self._cur += ch

    def add_line(self, text, origin):
        if self._cur:
            self.lines.append((self._cur, self._origin))
            self._cur, self._origin = '', None
        self.lines.append((text, origin))

    def flush(self):
        if self._cur:
            self.lines.append((self._cur, self._origin))
            self._cur, self._origin = '', None


def parse_quoted(s):
    """Parse leading "..." with \\" escapes; return (value, rest)."""
    s = s.lstrip()
    if not s.startswith('"'):
        raise SpecError('expected quoted string in: ' + s)
    i = 1
    out = ''
    while i < len(s):
        if s[i] == '\\' and i + 1 < len(s):
            out += {'n': '\n', 't': '\t'}.get(s[i + 1], s[i + 1])
            i += 2
        elif s[i] == '"':
            return out, s[i + 1:]
        else:
            out += s[i]
            i += 1
    raise SpecError('unterminated string in: ' + s)


def find_occurrences(text, mask, needle, lo, hi):
    res = []
    i = text.find(needle, lo)
    while 0 <= i < hi:
        if mask[i]:
            res.append(i)
        i = text.find(needle, i + 1)
    return res


def nth(text, mask, needle, occ, lo, hi, what):
    occs = find_occurrences(text, mask, needle, lo, hi)
    if len(occs) < occ or occ < 1:
        raise LostAnchor('%s: text %r occurrence %d not found (%d present)' % (what, needle, occ, len(occs)))
    return occs[occ - 1]


def loops_in(text, mask, lo, hi):
    """Offsets of loop keywords (`while`, `for`, `loop`) in code between lo and hi, in order."""
    res = []
    for m in find_code(text, mask, r'\b(while|for|loop)\b', lo, hi):
        if m.group(1) == 'for':
            # exclude `impl X for Y` / HRTB `for<'a>`
            after = text[m.end():m.end() + 2]
            if after.lstrip().startswith('<'):
                continue
        res.append(m.start())
    return res


def stmt_end(text, mask, pos, hi):
    """Offset of the ';' that terminates the statement containing pos (depth-0 relative)."""
    depth = 0
    i = pos
    while i < hi:
        if mask[i]:
            ch = text[i]
            if ch in '([{':
                depth += 1
            elif ch in ')]}':
                depth -= 1
                if depth < 0:
                    return -1
            elif ch == ';' and depth == 0:
                return i
        i += 1
    return -1


class Extractor:
    def __init__(self, repo, unit_path):
        self.repo = repo
        self.unit_path = unit_path
        self.out = Out()
        self.rewrites = {}       # kind -> count
        self.substs = []         # dicts
        self.holes = {}          # name -> content
        self.functions = []      # extracted exec functions 'file::path'
        self.items = []          # other extracted items
        self.fn_entry_lines = {}  # fn qualified name -> generated line index of body start (for vacuity twin)
        self.assumption_scan = []
        self.verus_args = []

    def count(self, kind, n=1):
        self.rewrites[kind] = self.rewrites.get(kind, 0) + n

    # ------------------------------------------------------------------
    def read_spec_lines(self, path, stack=()):
        if path in stack:
            raise SpecError('include cycle: ' + path)
        with open(path) as f:
            raw = f.read().split('\n')
        lines = []
        for no, line in enumerate(raw, 1):
            s = line.strip()
            if s.startswith('//@include '):
                inc = os.path.join(VERUS_DIR, s[len('//@include '):].strip())
                lines.extend(self.read_spec_lines(inc, stack + (path,)))
            elif s == '//@float_axioms':
                inc = os.path.join(VERUS_DIR, 'float_axioms.inc')
                lines.extend(self.read_spec_lines(inc, stack + (path,)))
            else:
                lines.append((line, os.path.relpath(path, VERUS_DIR), no))
        return lines

    # ------------------------------------------------------------------
    def run(self):
        lines = self.read_spec_lines(self.unit_path)
        n0 = len(lines)
        lines = add_float_extras(lines)
        if len(lines) > n0:
            self.count('R19', (len(lines) - n0) // 2)
        i = 0
        raw_buf = []
        while i < len(lines):
            text, f, no = lines[i]
            s = text.strip()
            if s.startswith('//@extract '):
                block = []
                j = i + 1
                while j < len(lines) and lines[j][0].strip() != '//@end':
                    block.append(lines[j])
                    j += 1
                if j >= len(lines):
                    raise SpecError('%s:%d: //@extract without //@end' % (f, no))
                self.do_extract(s[len('//@extract '):], block, (f, no))
                i = j + 1
            elif s.startswith('//@verus_arg '):
                self.verus_args.append(s[len('//@verus_arg '):].strip())
                i += 1
            elif s.startswith('//@'):
                raise SpecError('%s:%d: unknown top-level directive %s' % (f, no, s))
            else:
                raw_buf.append((text, f, no))
                self.out.add_line(text, ('vspec', f, no, label_of(text)))
                i += 1
        self.out.flush()
        check_no_exec_bodies(raw_buf)
        return self

    # ------------------------------------------------------------------
    def do_extract(self, header, block, where):
        parts = [p.strip() for p in header.split(' :: ')]
        relfile, path = parts[0], parts[1:]
        srcfile = os.path.join(self.repo, relfile)
        try:
            with open(srcfile) as fh:
                src = fh.read()
        except OSError as e:
            raise LostAnchor('cannot read %s: %s' % (relfile, e))
        start, end = locate(src, path)
        item = src[start:end]
        base_line = src.count('\n', 0, start) + 1
        mask = code_mask(item)
        qual = relfile + '::' + '::'.join(path)
        is_fn = path[-1].startswith('fn ')

        # --- parse sub-directives
        directives = []
        cur = None
        for text, f, no in block:
            s = text.strip()
            if s.startswith('//@'):
                cur = {'d': s[3:].strip(), 'lines': [], 'where': (f, no)}
                directives.append(cur)
            else:
                if cur is None:
                    if s:
                        raise SpecError('%s:%d: text before any sub-directive in extract' % (f, no))
                    continue
                cur['lines'].append((text, f, no))

        edits = []
        keep_attrs = any(d['d'] == 'keep_attrs' for d in directives)

        # R1: strip doc comments, attributes, pub
        if not keep_attrs:
            for m in re.finditer(r'^[ \t]*(///|//!).*\n', item, re.M):
                edits.append(Edit(m.start(), m.end(), '', 'R1'))
            for m in find_code(item, mask, r'#!?\['):
                ob = item.index('[', m.start())
                cb = match_brace(item, mask, ob)
                e = cb + 1
                # swallow trailing newline if attribute is alone on its line
                ls = item.rfind('\n', 0, m.start()) + 1
                if item[ls:m.start()].strip() == '' and item[e:e + 1] == '\n':
                    edits.append(Edit(ls, e + 1, '', 'R1'))
                else:
                    edits.append(Edit(m.start(), e, '', 'R1'))
        # `pub` is stripped from fn items only (a pub fn may not mention private spec fns in its
        # contract); visibility of types and fields is kept
        for m in find_code(item, mask, r'\bpub\s*(\((?:crate|super|self|in [^)]*)\))?\s+(?=(?:const\s+)?(?:unsafe\s+)?fn\b)'):
            edits.append(Edit(m.start(), m.end(), '', 'R1'))
        # restricted visibilities on types / fields make no sense in a single-file unit: pub(super) => pub
        for m in find_code(item, mask, r'\bpub\s*\((?:crate|super|self|in [^)]*)\)(?=\s+(?!(?:const\s+)?(?:unsafe\s+)?fn\b))'):
            edits.append(Edit(m.start(), m.end(), 'pub', 'R1'))

        # private fields of extracted structs are made `pub` (visibility has no run-time meaning; Verus
        # otherwise treats the datatype as opaque in contracts of pub items and in axiom modules)
        if path[-1].startswith('struct '):
            sm = next(find_code(item, mask, r'\bstruct\s+\w+'), None)
            if sm is not None:
                ob_ = next_open_brace(item, mask, sm.end())
                if ob_ >= 0:
                    cb_ = match_brace(item, mask, ob_)
                    depth_ = 0
                    for fmatch in re.finditer(r'(?m)^([ \t]*)(?!pub\b)([A-Za-z_]\w*)\s*:', item[ob_ + 1:cb_]):
                        pos_ = ob_ + 1 + fmatch.start(2)
                        # only fields at depth 1 of the struct body
                        d_ = 0
                        for ch_i in range(ob_ + 1, pos_):
                            if mask[ch_i]:
                                if item[ch_i] in '{(<[':
                                    d_ += 1
                                elif item[ch_i] in '})>]':
                                    d_ -= 1
                        if d_ == 0 and mask[pos_]:
                            edits.append(Edit(pos_, pos_, 'pub ', 'R1'))
                else:
                    # tuple struct: `struct S(T, U);`
                    op_ = item.find('(', sm.end())
                    if op_ >= 0:
                        cp_ = match_brace(item, mask, op_)
                        d_ = 0
                        start_ = op_ + 1
                        for ch_i in range(op_ + 1, cp_ + 1):
                            if not mask[ch_i]:
                                continue
                            c_ = item[ch_i]
                            if c_ in '(<[{':
                                d_ += 1
                            elif c_ in ')>]}' and ch_i != cp_:
                                d_ -= 1
                            if (c_ == ',' and d_ == 0) or ch_i == cp_:
                                seg = item[start_:ch_i]
                                if seg.strip() and not re.match(r'\s*pub\b', seg):
                                    ws = len(seg) - len(seg.lstrip())
                                    edits.append(Edit(start_ + ws, start_ + ws, 'pub ', 'R1'))
                                start_ = ch_i + 1

        # a private `const` item is made `pub` for the same reason as struct fields
        if path[-1].startswith('const '):
            cm_ = next(find_code(item, mask, r'\bconst\s+\w+'), None)
            if cm_ is not None and not re.search(r'\bpub\b[^;]*$', item[:cm_.start()].split('\n')[-1]):
                edits.append(Edit(cm_.start(), cm_.start(), 'pub ', 'R1'))

        body_open = body_close = None
        if is_fn:
            fm = next(find_code(item, mask, r'\bfn\s+\w+'))
            body_open = next_open_brace(item, mask, fm.end())
            if body_open < 0:
                raise LostAnchor('%s: function has no body' % qual)
            body_close = match_brace(item, mask, body_open)
            # R2: drop eprintln!(...);
            for m in find_code(item, mask, r'\beprintln!\s*\(', body_open, body_close):
                op = item.index('(', m.start())
                cp = match_brace(item, mask, op)
                e = cp + 1
                while e < len(item) and item[e] in ' \t':
                    e += 1
                if item[e:e + 1] == ';':
                    e += 1
                    edits.append(Edit(m.start(), e, '', 'R2'))
                else:
                    # expression position (e.g. match arm): replace by unit
                    edits.append(Edit(m.start(), cp + 1, '()', 'R2'))

        loop_offsets = loops_in(item, mask, body_open, body_close) if is_fn else []
        entry_lines = []
        pre_entry = []
        spec_lines = []
        for d in directives:
            head = d['d']
            wf, wno = d['where']
            if head == 'keep_attrs':
                continue
            if head.startswith('attr '):
                s0 = item.rfind('\n', 0, fm.start()) + 1
                edits.append(Edit(s0, s0, [('    ' + head[5:].strip(), wf, wno)], 'splice'))
                continue
            if head.startswith('ret '):
                name = head[4:].strip()
                rtype_as = None
                if ' as ' in name:      # `//@ret r as T`: R17, the associated return type named at the verified instance
                    name, rtype_as = [x.strip() for x in name.split(' as ', 1)]
                am = None
                i = fm.end()
                while item[i].isspace():
                    i += 1
                if item[i] == '<':
                    depth = 0
                    while True:
                        if mask[i]:
                            if item[i] == '<':
                                depth += 1
                            elif item[i] == '>' and item[i - 1] != '-':
                                depth -= 1
                                if depth == 0:
                                    break
                        i += 1
                    i += 1
                    while item[i].isspace():
                        i += 1
                if item[i] != '(':
                    raise LostAnchor('%s: cannot find parameter list' % qual)
                i = match_brace(item, mask, i) + 1
                mm = re.match(r'\s*->', item[i:body_open])
                if mm:
                    am = i + mm.end() - 2
                if am is None:
                    raise LostAnchor('%s: no return type to name' % qual)
                ts = am + 2
                te = body_open
                wh = re.search(r'\bwhere\b', item[ts:te])
                if wh:
                    te = ts + wh.start()
                rtype = item[ts:te].strip()
                if rtype_as is not None:
                    self.substs.append({'fn': qual, 'kind': 'R17', 'from': rtype, 'to': rtype_as, 'count': 1})
                    rtype = rtype_as
                edits.append(Edit(ts, te, ' (%s: %s) ' % (name, rtype), 'R10'))
            elif head == 'spec':
                spec_lines = d['lines']
            elif head == 'entry':
                entry_lines = d['lines']
            elif head.startswith('loop '):
                k = int(head.split()[1])
                if k < 1 or k > len(loop_offsets):
                    raise LostAnchor('%s: loop %d not found (%d loops)' % (qual, k, len(loop_offsets)))
                lo = loop_offsets[k - 1]
                ob = next_open_brace(item, mask, lo + 1, body_close)
                if ob < 0:
                    raise LostAnchor('%s: loop %d has no body' % (qual, k))
                edits.append(Edit(ob, ob, d['lines'], 'splice'))
            elif head.startswith('loophead '):
                # //@loophead K KIND => "new header" body "statements"   (declared R7-style rewrite of an
                # iterator-style loop header into an index loop over the same elements)
                m = re.match(r'loophead\s+(\d+)\s+(\w+)\s*=>\s*(.*)$', head)
                k, kind = int(m.group(1)), m.group(2)
                if kind not in SUBST_KINDS:
                    raise SpecError('%s:%d: unknown rewrite kind %s' % (wf, wno, kind))
                newhead, rest = parse_quoted(m.group(3))
                rest = rest.strip()
                body_stmts = ''
                if rest.startswith('body'):
                    body_stmts, _ = parse_quoted(rest[4:])
                if k < 1 or k > len(loop_offsets):
                    raise LostAnchor('%s: loop %d not found (%d loops)' % (qual, k, len(loop_offsets)))
                lo = loop_offsets[k - 1]
                ob = next_open_brace(item, mask, lo + 1, body_close)
                oldhead = item[lo:ob].strip()
                expected = d['lines'][0][0].strip() if d['lines'] else None
                if expected is not None and ' '.join(expected.split()) != ' '.join(oldhead.split()):
                    raise LostAnchor('%s: loop %d header is %r, expected %r' % (qual, k, oldhead, expected))
                edits.append(Edit(lo, ob, newhead + ' ', kind))
                if body_stmts:
                    e2 = Edit(ob + 1, ob + 1, [(' ' + body_stmts, '<%s>' % kind, 0)], 'splice')
                    e2.prio = -1
                    edits.append(e2)
                self.substs.append({'fn': qual, 'kind': kind, 'from': oldhead, 'to': newhead + ' { ' + body_stmts, 'count': 1})
            elif head.startswith('afterloop '):
                k = int(head.split()[1])
                if k < 1 or k > len(loop_offsets):
                    raise LostAnchor('%s: loop %d not found (%d loops)' % (qual, k, len(loop_offsets)))
                ob = next_open_brace(item, mask, loop_offsets[k - 1] + 1, body_close)
                cb = match_brace(item, mask, ob)
                edits.append(Edit(cb + 1, cb + 1, d['lines'], 'splice'))
            elif head.startswith('inloop '):
                k = int(head.split()[1])
                if k < 1 or k > len(loop_offsets):
                    raise LostAnchor('%s: loop %d not found (%d loops)' % (qual, k, len(loop_offsets)))
                ob = next_open_brace(item, mask, loop_offsets[k - 1] + 1, body_close)
                edits.append(Edit(ob + 1, ob + 1, d['lines'], 'splice'))
            elif head.startswith('before ') or head.startswith('after '):
                kind, rest = head.split(' ', 1)
                needle, rest = parse_quoted(rest)
                occ = 1
                m = re.match(r'\s*occ\s+(\d+)', rest)
                if m:
                    occ = int(m.group(1))
                pos = nth(item, mask, needle, occ, body_open, body_close, '%s %s:%d' % (qual, wf, wno))
                if kind == 'before':
                    ls = item.rfind('\n', 0, pos) + 1
                    edits.append(Edit(ls, ls, d['lines'], 'splice'))
                else:
                    se = stmt_end(item, mask, pos, body_close)
                    if se < 0:
                        # no terminating ';' (tail expression / block): after end of line
                        se = item.find('\n', pos)
                    else:
                        se += 1
                    edits.append(Edit(se, se, d['lines'], 'splice'))
            elif head == 'rw mutself':
                m = next(find_code(item, mask, r'\bmut\s+self\b', fm.end(), body_open), None)
                if m is None:
                    raise LostAnchor('%s: no `mut self` parameter' % qual)
                edits.append(Edit(m.start(), m.end(), 'self', 'R3'))
                for mm in find_code(item, mask, r'\bself\b', body_open, body_close):
                    edits.append(Edit(mm.start(), mm.end(), 'self_', 'R3'))
                pre_entry = [('        let mut self_ = self;', '<R3>', 0)]
            elif head.startswith('rw deref_buffer '):
                # R15 as a rule: for the listed variables (deref_buffer! newtypes) make the Deref explicit
                names = [x.strip() for x in head[len('rw deref_buffer '):].split(',') if x.strip()]
                for nm in names:
                    for mm in find_code(item, mask, r'(?<![\w])(?<![^.]\.)' + re.escape(nm) + r'(?=\[)', body_open, body_close):
                        edits.append(Edit(mm.end(), mm.end(), '.buffer', 'R15'))
                    for mm in find_code(item, mask, r'(?<![\w])(?<![^.]\.)' + re.escape(nm) + r'(?=\.len\(\))', body_open, body_close):
                        edits.append(Edit(mm.end(), mm.end(), '.buffer', 'R15'))
                self.substs.append({'fn': qual, 'kind': 'R15', 'from': 'X[..] / X.len() for X in %s' % names, 'to': 'X.buffer[..] / X.buffer.len()', 'count': -1})
            elif head.startswith('rw float_opassign '):
                # R4 as a rule: `LHS op= RHS;` => `LHS = LHS op (RHS);` for statements whose LHS starts with a listed name
                names = [x.strip() for x in head[len('rw float_opassign '):].split(',') if x.strip()]
                pat = r'(?m)^([ \t]*)((?:\*\s*)?(?:' + '|'.join(re.escape(n_) for n_ in names) + r')\b[^;=\n]*?)\s*([-+*/])=\s*([^;]*);'
                for mm in find_code(item, mask, pat, body_open, body_close):
                    lhs, op, rhs = mm.group(2).strip(), mm.group(3), mm.group(4).strip()
                    # the LHS text is duplicated; Deref insertion for listed buffers is repeated inside the replacement
                    def fix(t):
                        for d_ in directives:
                            if d_['d'].startswith('rw deref_buffer '):
                                for nm in [x.strip() for x in d_['d'][len('rw deref_buffer '):].split(',') if x.strip()]:
                                    t = re.sub(r'(?<![\w])(?<![^.]\.)' + re.escape(nm) + r'(?=\[)', nm + '.buffer', t)
                                    t = re.sub(r'(?<![\w])(?<![^.]\.)' + re.escape(nm) + r'(?=\.len\(\))', nm + '.buffer', t)
                        return t
                    # two point edits (the `op=` token and the closing parenthesis) so that other rules may
                    # still rewrite inside the left- and right-hand sides
                    opos = mm.start(3)
                    edits.append(Edit(opos, opos + 2, '= %s %s (' % (fix(lhs), op), 'R4'))
                    edits.append(Edit(mm.end() - 1, mm.end() - 1, ')', 'R4'))
                self.substs.append({'fn': qual, 'kind': 'R4', 'from': 'LHS op= RHS; with LHS starting with one of %s' % names, 'to': 'LHS = LHS op (RHS);', 'count': -1})
            elif head == 'rw float_neg':
                # R16 as a rule: unary minus applied to a parenthesised expression or to a place expression
                # (ident, fields, indexing, calls), which Verus does not accept on floats, goes through the
                # contracted wrapper f64_neg (float_axioms.inc): `-(E)` => `f64_neg(E)`, `-a[i]` => `f64_neg(a[i])`
                cnt = 0
                for mm in find_code(item, mask, r'(?<=[=(,{;:])\s*-(?=[A-Za-z_(])', body_open, body_close):
                    minus = item.index('-', mm.start())
                    pos = minus + 1
                    if item[pos] == '(':
                        end_ = match_brace(item, mask, pos) + 1
                        edits.append(Edit(minus, minus + 1, 'f64_neg', 'R16'))
                    else:
                        m2_ = re.match(r'[A-Za-z_]\w*', item[pos:])
                        end_ = pos + m2_.end()
                        while end_ < body_close:
                            if item[end_] in '([':
                                end_ = match_brace(item, mask, end_) + 1
                            elif item[end_] == '.' and re.match(r'\.[A-Za-z_0-9]', item[end_:end_ + 2]):
                                m3_ = re.match(r'\.\w+', item[end_:])
                                end_ += m3_.end()
                            else:
                                break
                        edits.append(Edit(minus, minus + 1, 'f64_neg(', 'R16'))
                        edits.append(Edit(end_, end_, ')', 'R16'))
                    cnt += 1
                self.substs.append({'fn': qual, 'kind': 'R16', 'from': '-(E) / -place', 'to': 'f64_neg(E)', 'count': cnt})
            elif head == 'rw cast_usize_f64':
                # R6 as a rule: `OPERAND as f64`, OPERAND a place expression or a parenthesised expression of type
                # usize, goes through the contracted wrapper usize_to_f64 (float_axioms.inc)
                cnt = 0
                for mm in find_code(item, mask, r'\s+as\s+f64\b', body_open, body_close):
                    end_ = mm.start()
                    j = end_
                    # walk back over the operand
                    while j > body_open:
                        ch = item[j - 1]
                        if ch in ')]':
                            # matching opener, scanning backwards
                            depth, k_ = 0, j - 1
                            closer = ch
                            opener = '(' if ch == ')' else '['
                            while k_ >= body_open:
                                if mask[k_]:
                                    if item[k_] == closer:
                                        depth += 1
                                    elif item[k_] == opener:
                                        depth -= 1
                                        if depth == 0:
                                            break
                                k_ -= 1
                            j = k_
                        elif ch.isalnum() or ch in '_.':
                            j -= 1
                        else:
                            break
                    operand = item[j:end_]
                    if not operand.strip():
                        continue
                    edits.append(Edit(j, j, 'usize_to_f64(', 'R6'))
                    edits.append(Edit(mm.start(), mm.end(), ')', 'R6'))
                    cnt += 1
                self.substs.append({'fn': qual, 'kind': 'R6', 'from': 'OPERAND as f64', 'to': 'usize_to_f64(OPERAND)', 'count': cnt})
            elif head == 'rw rev_loops':
                # R7 as a rule: `for X in (A..B).rev() {` => `let mut X_next = B; while X_next > A { X_next -= 1; let X = X_next;`
                cnt = 0
                for lo_ in loop_offsets:
                    if not item.startswith('for', lo_):
                        continue
                    ob_ = next_open_brace(item, mask, lo_ + 1, body_close)
                    hdr = item[lo_:ob_]
                    mm = re.match(r'for\s+(\w+)\s+in\s+\((.+?)\.\.(.+)\)\.rev\(\)\s*$', hdr, re.S)
                    if not mm:
                        continue
                    x_, a_, b_ = mm.group(1), mm.group(2).strip(), mm.group(3).strip()
                    # the header is replaced as a whole: repeat the Deref insertion for listed buffers inside it
                    for d_ in directives:
                        if d_['d'].startswith('rw deref_buffer '):
                            for nm in [x.strip() for x in d_['d'][len('rw deref_buffer '):].split(',') if x.strip()]:
                                a_ = re.sub(r'(?<![\w])(?<![^.]\.)' + re.escape(nm) + r'(?=\[|\.len\(\))', nm + '.buffer', a_)
                                b_ = re.sub(r'(?<![\w])(?<![^.]\.)' + re.escape(nm) + r'(?=\[|\.len\(\))', nm + '.buffer', b_)
                    edits.append(Edit(lo_, ob_, 'let mut %s_next = %s; while %s_next > %s ' % (x_, b_, x_, a_), 'R7'))
                    e2 = Edit(ob_ + 1, ob_ + 1, [(' %s_next -= 1; let %s = %s_next;' % (x_, x_, x_), '<R7>', 0)], 'splice')
                    e2.prio = -1
                    edits.append(e2)
                    cnt += 1
                self.substs.append({'fn': qual, 'kind': 'R7', 'from': 'for X in (A..B).rev()', 'to': 'let mut X_next = B; while X_next > A { X_next -= 1; let X = X_next;', 'count': cnt})
            elif head == 'rw name_iters':
                # R13 as a rule: every `for PAT in A..B` gets a named ghost iterator (`for PAT in iter: A..B`)
                # so that spliced invariants can refer to iter.iter.end; the executable text is unchanged
                cnt = 0
                for lo_ in loop_offsets:
                    if not item.startswith('for', lo_):
                        continue
                    ob_ = next_open_brace(item, mask, lo_ + 1, body_close)
                    hdr = item[lo_:ob_]
                    mm = re.match(r'for\s+[^;{}]*?\bin\s+', hdr)
                    if not mm:
                        continue
                    rng = hdr[mm.end():].strip()
                    if '..' not in rng or rng.startswith('(') or rng.startswith('iter:'):
                        continue
                    edits.append(Edit(lo_ + mm.end(), lo_ + mm.end(), 'iter: ', 'R13'))
                    cnt += 1
                self.substs.append({'fn': qual, 'kind': 'R13', 'from': 'for PAT in A..B', 'to': 'for PAT in iter: A..B', 'count': cnt})
            elif head == 'rw wildcard_closure':
                for mm in find_code(item, mask, r'\|_\|', body_open, body_close):
                    edits.append(Edit(mm.start(), mm.end(), '|_e|', 'R9'))
            elif head == 'rw enumerate':
                n = 0
                pat = r'for\s*\(\s*(\w+)\s*,\s*([^)]*?|\([^)]*\))\s*\)\s*in\s+([\w\.]+?)\.iter\(\)\.enumerate\(\)(\.rev\(\))?\s*(?=\{)'
                for mm in find_code(item, mask, pat, body_open, body_close):
                    idx, patv, seq, rev = mm.group(1), mm.group(2), mm.group(3), mm.group(4)
                    if rev:
                        continue   # the .rev() form must be given by a declared //@subst R7
                    edits.append(Edit(mm.start(), mm.end(), 'for %s in 0..%s.len() ' % (idx, seq), 'R7'))
                    e2 = Edit(mm.end() + 1, mm.end() + 1, [(' let %s = &%s[%s];' % (patv, seq, idx), '<R7>', 0)], 'splice')
                    e2.prio = -1
                    edits.append(e2)
                    n += 1
                if n == 0:
                    raise LostAnchor('%s: no enumerate loop for R7' % qual)
            elif head.startswith('subst '):
                rest = head[len('subst '):].strip()
                kind, rest = rest.split(' ', 1)
                if kind not in SUBST_KINDS:
                    raise SpecError('%s:%d: unknown subst kind %s' % (wf, wno, kind))
                in_sig = False
                if rest.startswith('sig '):      # search the fn signature instead of the body
                    in_sig = True
                    rest = rest[4:]
                a, rest = parse_quoted(rest)
                rest = rest.strip()
                if not rest.startswith('=>'):
                    raise SpecError('%s:%d: subst needs =>' % (wf, wno))
                b, rest = parse_quoted(rest[2:])
                cnt = 1
                m = re.match(r'\s*count\s+(\d+|\*)', rest)
                if m:
                    cnt = -1 if m.group(1) == '*' else int(m.group(1))      # `count *`: every occurrence, however many
                lo_, hi_ = (body_open, body_close) if is_fn else (0, len(item))
                if in_sig and is_fn:
                    lo_, hi_ = fm.start(), body_open
                occs = find_occurrences(item, mask, a, lo_, hi_)
                if cnt >= 0 and len(occs) != cnt:
                    raise LostAnchor('%s: subst %s %r expected %d occurrence(s), found %d' % (qual, kind, a, cnt, len(occs)))
                for o in occs:
                    edits.append(Edit(o, o + len(a), b, kind))
                self.substs.append({'fn': qual, 'kind': kind, 'from': a, 'to': b, 'count': cnt})
            elif head.startswith('hole '):
                m = re.match(r'hole\s+(\w+)\s+from\s+(.*)$', head)
                name = m.group(1)
                needle, rest = parse_quoted(m.group(2))
                occ = 1
                mm = re.match(r'\s*occ\s+(\d+)', rest)
                if mm:
                    occ = int(mm.group(1))
                    rest = rest[mm.end():]
                rest = rest.strip()
                until = None
                mu = re.match(r'until\s+', rest)
                if mu:
                    until, rest = parse_quoted(rest[mu.end():])
                    rest = rest.strip()
                if not rest.startswith('=>'):
                    raise SpecError('%s:%d: hole needs =>' % (wf, wno))
                rep, _ = parse_quoted(rest[2:])
                pos = nth(item, mask, needle, occ, body_open, body_close, '%s hole %s' % (qual, name))
                hs = pos + len(needle)
                if until == '{':
                    he = next_open_brace(item, mask, hs, body_close)
                elif until == '}':
                    he = body_close          # tail expression of the function body
                    while he > hs and item[he - 1].isspace():
                        he -= 1
                elif until is not None:
                    raise SpecError('%s:%d: hole until supports only "{" and "}"' % (wf, wno))
                else:
                    he = stmt_end(item, mask, hs, body_close)
                if he < 0:
                    raise LostAnchor('%s hole %s: statement end not found' % (qual, name))
                self.holes[name] = {'fn': qual, 'content': item[hs:he].strip(), 'replacement': rep}
                edits.append(Edit(hs, he, rep, 'R8'))
            elif head.startswith('stmthole '):
                m = re.match(r'stmthole\s+(\w+)\s+loop\s+(\d+)\s*=>\s*(.*)$', head)
                name, k = m.group(1), int(m.group(2))
                rep, _ = parse_quoted(m.group(3))
                if k < 1 or k > len(loop_offsets):
                    raise LostAnchor('%s: loop %d not found for stmthole' % (qual, k))
                lo = loop_offsets[k - 1]
                ob = next_open_brace(item, mask, lo + 1, body_close)
                cb = match_brace(item, mask, ob)
                self.holes[name] = {'fn': qual, 'content': item[lo:cb + 1], 'replacement': rep}
                edits.append(Edit(lo, cb + 1, rep, 'R8'))
            else:
                raise SpecError('%s:%d: unknown directive //@%s' % (wf, wno, head))

        if is_fn:
            if spec_lines:
                edits.append(Edit(body_open, body_open, spec_lines, 'splice'))
            if pre_entry or entry_lines:
                edits.append(Edit(body_open + 1, body_open + 1, pre_entry + list(entry_lines), 'splice'))
            edits.append(Edit(body_open + 1, body_open + 1, [('/*@ENTRY %s@*/' % qual, '<entry>', 0)], 'marker'))

        # --- apply edits (original coordinates)
        edits.sort(key=lambda e: (e.start, e.end, e.prio))
        # drop edits nested inside a replaced range (e.g. R1 inside a hole)
        pruned = []
        cover_end = -1
        for e in edits:
            if e.start < cover_end:
                if e.tag in ('R1', 'R2', 'R3', 'R9', 'R15'):
                    continue
                raise SpecError('%s: overlapping edits at %d (%s)' % (qual, e.start, e.tag))
            pruned.append(e)
            if e.end > e.start:
                cover_end = max(cover_end, e.end)
        edits = pruned

        def repo_origin(off):
            return ('repo', relfile, base_line + item.count('\n', 0, off))

        self.out.add_line('// ---- extracted: %s (line %d) ----' % (qual, base_line), ('gen',))
        pos = 0
        for e in edits:
            if e.start > pos:
                seg_start = pos
                self.out.add(item[pos:e.start], lambda idx, s=seg_start: repo_origin(s + idx))
            if isinstance(e.text, list):
                self.out.flush()
                for text, f, no in e.text:
                    if text.startswith('/*@ENTRY '):
                        self.out.add_line(text, ('entry', qual))
                    else:
                        self.out.add_line(text, ('vspec', f, no, label_of(text)))
            else:
                if e.tag not in ('R1',) or e.text:
                    pass
                st = e.start
                self.out.add(e.text, lambda idx, s=st: repo_origin(s) + ('rewritten',))
                if e.tag.startswith('R'):
                    self.count(e.tag)
            pos = max(pos, e.end)
        self.out.add(item[pos:], lambda idx, s=pos: repo_origin(s + idx))
        self.out.flush()
        if is_fn:
            self.functions.append(qual)
        else:
            self.items.append(qual)


def label_of(text):
    m = re.search(r'//\s*#([\w\-./]+)\s*$', text)
    return m.group(1) if m else None


def check_no_exec_bodies(raw_lines):
    """Every fn with a body in spec text must be spec/proof, or external_body, or inside
    assume_specification.  Anything else is an executable body that did not come from /repo."""
    text = '\n'.join(t for t, _, _ in raw_lines)
    mask = code_mask(text)
    for m in find_code(text, mask, r'\bfn\s+(\w+)'):
        ls = text.rfind('\n', 0, m.start()) + 1
        prefix = text[ls:m.start()]
        if re.search(r'\b(spec|proof)\b', prefix):
            continue
        # does it have a body?
        ob = next_open_brace(text, mask, m.end())
        if ob < 0:
            continue
        if text[ob:match_brace(text, mask, ob) + 1].replace(' ', '') in ('{}', '{unimplemented!()}'):
            continue   # empty body (fn main() {}) or an explicit stub
        # preceding attribute lines
        j = ls
        attrs = prefix
        while j > 0:
            pe = j - 1
            ps = text.rfind('\n', 0, pe) + 1
            l = text[ps:pe].strip()
            if l.startswith('#[') or l == '' or l.startswith('//'):
                attrs = l + ' ' + attrs
                j = ps
                if l == '':
                    break
            else:
                break
        if 'external_body' in attrs or 'external_fn_specification' in attrs:
            continue
        # assume_specification [...] fn ... has no body normally; closures `|x| ...` not matched by fn
        lineno = text.count('\n', 0, m.start())
        t, f, no = raw_lines[lineno]
        raise SpecError('%s:%d: executable fn `%s` with a body in spec text (must come from /repo)' % (f, no, m.group(1)))


def scan_assumptions(lines):
    """Mechanical scan of the generated file for unchecked assumptions."""
    found = []
    pat = re.compile(r'\b(assume\s*\(|admit\s*\(|assume_specification|external_body|external_fn_specification|external_type_specification|#\[verifier::external\]|accept_recursive_types|uninterp\b)')
    for i, (t, origin) in enumerate(lines, 1):
        code = t.split('//')[0]
        m = pat.search(code)
        if m:
            text = t.strip()
            if text.startswith('#[') and i < len(lines):
                text += ' ' + lines[i][0].strip()     # the item the attribute is attached to
            found.append({'line': i, 'kind': m.group(1).strip(' ('), 'text': text[:200]})
    return found


def add_referenced_consts(repo, ex, lines):
    """R18: a file-level `const` of a source file from which a function was extracted, which the generated text
    mentions but does not define, is copied in (made `pub`) right after the `verus! {` line.  Keeps a change that
    introduces or uses such a constant inside the verified subset."""
    text = '\n'.join(t for t, _ in lines)
    files = sorted(set(q.split('::')[0] for q in ex.functions))
    added = []
    for rel in files:
        fp = os.path.join(repo, rel)
        try:
            src = open(fp).read()
        except OSError:
            continue
        mask = code_mask(src)
        for m in find_code(src, mask, r'(?m)^(?:pub(?:\([^)]*\))?\s+)?const\s+([A-Z][A-Z0-9_]*)\s*:\s*([^=;]+)=([^;]*);'):
            name = m.group(1)
            if not re.search(r'\b%s\b' % name, text):
                continue
            if re.search(r'\bconst\s+%s\b' % name, text):
                continue
            added.append((name, 'pub const %s: %s = %s;' % (name, m.group(2).strip(), m.group(3).strip()), rel))
    if added:
        k = next((i for i, (t, _) in enumerate(lines) if t.strip().startswith('verus!') and t.strip().endswith('{')), None)
        if k is not None:
            ins = [('// R18: file-level constant of %s referenced by the extracted text' % rel, None) for _, _, rel in added[:1]]
            ins += [(decl, None) for _, decl, _ in added]
            lines[k + 1:k + 1] = ins
            ex.rewrites['R18'] = ex.rewrites.get('R18', 0) + len(added)
    return lines


def generate(repo, unit_path, out_path, twin_path=None):
    ex = Extractor(repo, unit_path).run()
    lines = add_referenced_consts(repo, ex, ex.out.lines)
    with open(out_path, 'w') as f:
        for t, _ in lines:
            f.write(t.replace('/*@ENTRY', '/*ENTRY').rstrip() + '\n')
    if twin_path:
        with open(twin_path, 'w') as f:
            for t, origin in lines:
                if origin and origin[0] == 'entry':
                    f.write('        proof { assert(false); } // VACUITY-PROBE %s\n' % origin[1])
                else:
                    f.write(t.rstrip() + '\n')
    meta = {
        'unit': os.path.basename(unit_path),
        'functions': ex.functions,
        'items': ex.items,
        'rewrites': ex.rewrites,
        'substs': ex.substs,
        'holes': ex.holes,
        'verus_args': ex.verus_args,
        'linemap': [list(o) if o else None for _, o in lines],
        'assumption_scan': scan_assumptions(lines),
    }
    return meta


if __name__ == '__main__':
    import argparse
    ap = argparse.ArgumentParser()
    ap.add_argument('unit')
    ap.add_argument('-o', '--out', required=True)
    ap.add_argument('--twin')
    ap.add_argument('--repo', default='/repo')
    ap.add_argument('--meta')
    a = ap.parse_args()
    try:
        meta = generate(a.repo, a.unit, a.out, a.twin)
    except LostAnchor as e:
        print('LOST-ANCHOR: %s' % e)
        sys.exit(2)
    except SpecError as e:
        print('SPEC-ERROR: %s' % e)
        sys.exit(3)
    if a.meta:
        with open(a.meta, 'w') as f:
            json.dump(meta, f, indent=1)
    print('generated %s: %d functions, rewrites %s, holes %s' % (a.out, len(meta['functions']), meta['rewrites'], list(meta['holes'])))
