use vstd::prelude::*;
verus! {

enum WeightError { InvalidSum, InvalidLength(usize, usize) }

struct Weights { weights: Vec<f64> }

pub uninterp spec fn sum_ok(w: Seq<f64>) -> bool;

impl Weights {
    #[verifier::external_body]
    fn new(weight: &[f64]) -> (r: Result<Self, WeightError>)
        ensures r matches Ok(w) ==> w.weights@ == weight@ && sum_ok(weight@),
                r.is_err() ==> !sum_ok(weight@),
    { unimplemented!() }

    fn check_length(&self, length: usize) -> Result<(), WeightError> {
        if self.weights.len() != length {
            return Err(WeightError::InvalidLength(length, self.weights.len()));
        }
        Ok(())
    }
}

struct InterporationWeight {
    nvoices: usize,

    duration: Weights,
    parameter: Vec<Weights>,
    gv: Vec<Weights>,
}

impl InterporationWeight {
    fn set_duration(&mut self, weight: &[f64]) -> Result<(), WeightError> {
        let weights = Weights::new(weight)?;
        weights.check_length(self.nvoices)?;
        self.duration = weights;
        Ok(())
    }
    fn set_parameter(
        &mut self,
        stream_index: usize,
        weight: &[f64],
    ) -> Result<(), WeightError> {
        let weights = Weights::new(weight)?;
        weights.check_length(self.nvoices)?;
        self.parameter[stream_index] = weights;
        Ok(())
    }
    fn get_parameter(&self, stream_index: usize) -> &Weights {
        &self.parameter[stream_index]
    }
}

// ring buffer / deref-assign through returned &mut
struct RingBuffer<T> {
    buffer: Vec<T>,
    index: usize,
}
impl<T> RingBuffer<T> {
    fn get_mut_with_offset(&mut self, i: usize) -> &mut T {
        let index = (self.index + i) % self.buffer.len();
        &mut self.buffer[index]
    }
    fn len(&self) -> usize {
        self.buffer.len()
    }
}
struct Exc { ring_buffer: RingBuffer<f64> }
impl Exc {
    fn unvoiced_frame(&mut self, noise: f64) {
        let center = (self.ring_buffer.len() - 1) / 2;
        *self.ring_buffer.get_mut_with_offset(center) = *self.ring_buffer.get_mut_with_offset(center) + noise;
    }
}

} // verus!
fn main() {}
