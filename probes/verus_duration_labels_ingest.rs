use vstd::prelude::*;
verus! {

pub struct MeanVari(pub f64, pub f64);

#[verifier::external_body]
fn est(p: &[MeanVari], fl: f64) -> (r: Vec<usize>)
    ensures r@.len() == p@.len(), forall|i: int| 0 <= i < r@.len() ==> r@[i] >= 1
{ unimplemented!() }

#[verifier::external_body]
fn vsum(v: &Vec<usize>) -> (r: usize) { unimplemented!() }
#[verifier::external_body]
fn fsub(a: f64, b: usize) -> (r: f64) { unimplemented!() }

struct DE { parameters: Vec<MeanVari>, nstate: usize }

impl DE {
    fn create_with_alignment(&self, times: &[(f64, f64)]) -> Vec<usize>
    {
        let mut duration = vec![];
        let mut frame_count = 0;
        let mut next_state = 0;
        let mut state = 0;
        for i in 0..times.len() {
            let (_start_frame, end_frame) = &times[i];
            if *end_frame >= 0.0 {
                let curr_duration = est(
                    &self.parameters[next_state..state + self.nstate],
                    fsub(*end_frame, frame_count),
                );
                frame_count += vsum(&curr_duration);
                next_state = state + self.nstate;
                duration.extend_from_slice(&curr_duration);
            } else if i + 1 == times.len() {
                est(&self.parameters[next_state..state + self.nstate], 0.0);
            }
            state += self.nstate;
        }
        duration
    }
}

fn labels_new(times: &mut Vec<(f64, f64)>) {
    for i in 0..times.len() {
        if i + 1 < times.len() {
            if times[i].1 < 0.0 && times[i + 1].0 >= 0.0 {
                times[i].1 = times[i + 1].0;
            } else if times[i].1 >= 0.0 && times[i + 1].0 < 0.0 {
                times[i + 1].0 = times[i].1;
            }
        }
        if times[i].0 < 0.0 {
            times[i].0 = -1.0;
        }
    }
}

} // verus!
fn main() {}
