use vstd::prelude::*;
verus! {

pub struct SP { pub v: u64 }
pub uninterp spec fn ht_spec(s: SP, h: u64) -> SP;
impl SP {
    #[verifier::external_body]
    pub fn shift(&mut self, h: u64)
        ensures *final(self) == ht_spec(*old(self), h),
    { unimplemented!() }
}
pub struct MS { pub stream: SP, pub other: u64 }

fn caller(ms: MS, h: u64) -> (r: MS)
    ensures r.stream == ht_spec(ms.stream, h), r.other == ms.other,
{
    fn mutated<T, F: FnOnce(&mut T)>(mut value: T, f: F) -> (r: T)
        requires forall|x: &mut T| f.requires((x,)),
        ensures exists|x: &mut T| *x == value && *final(x) == r && f.ensures((x,), ()),
    {
        f(&mut value);
        value
    }

    mutated(ms, |m|
        ensures final(m).stream == ht_spec(old(m).stream, h), final(m).other == old(m).other,
    {
        m.stream.shift(h);
    })
}

} // verus!
fn main() {}
