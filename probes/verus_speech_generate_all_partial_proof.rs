use vstd::prelude::*;
verus! {

// ---- abstract vocoder (trusted contract; discharged separately) ----
#[verifier::external_body]
pub struct Vocoder { _p: u8 }

pub struct VocSt { pub id: int }

impl Vocoder {
    pub uninterp spec fn view(&self) -> VocSt;
    pub uninterp spec fn fperiod_spec(&self) -> nat;
}
pub uninterp spec fn voc_next(s: VocSt, lf0: f64, sp: Seq<f64>, lpf: Seq<f64>) -> VocSt;
pub uninterp spec fn voc_out(s: VocSt, lf0: f64, sp: Seq<f64>, lpf: Seq<f64>) -> Seq<f64>;

impl Vocoder {
    #[verifier::external_body]
    pub fn synthesize(&mut self, lf0: f64, spectrum: &[f64], lpf: &[f64], rawdata: &mut [f64])
        requires old(rawdata)@.len() >= old(self).fperiod_spec(),
        ensures
            final(self).fperiod_spec() == old(self).fperiod_spec(),
            final(self)@ == voc_next(old(self)@, lf0, spectrum@, lpf@),
            final(rawdata)@.len() == old(rawdata)@.len(),
            voc_out(old(self)@, lf0, spectrum@, lpf@).len() == old(self).fperiod_spec(),
            final(rawdata)@.subrange(0, old(self).fperiod_spec() as int) == voc_out(old(self)@, lf0, spectrum@, lpf@),
            final(rawdata)@.subrange(old(self).fperiod_spec() as int, old(rawdata)@.len() as int)
                == old(rawdata)@.subrange(old(self).fperiod_spec() as int, old(rawdata)@.len() as int),
    { unimplemented!() }
}

type Parameter = Vec<Vec<f64>>;

struct SpeechGenerator {
    fperiod: usize,
    vocoder: Vocoder,
    spectrum: Parameter,
    lf0: Parameter,
    lpf: Parameter,

    next: usize,
}

impl SpeechGenerator {
    spec fn wf(&self) -> bool {
        &&& self.spectrum.len() == self.lf0.len()
        &&& self.lpf.len() == self.lf0.len()
        &&& self.vocoder.fperiod_spec() == self.fperiod
        &&& self.next <= self.lf0.len()
        &&& forall|i: int| 0 <= i < self.lf0.len() ==> self.lf0[i].len() >= 1
    }
    // trusted axiom-like predicate: voc_out always has fperiod samples (from the synthesize contract)
    spec fn wf_shapes(&self) -> bool {
        forall|s: VocSt, i: int| 0 <= i < self.lf0.len() ==> (#[trigger] voc_out(s, self.lf0[i][0], self.spectrum[i]@, self.lpf[i]@)).len() == self.fperiod
    }
    spec fn nframes(&self) -> nat { self.lf0.len() as nat }

    // state of the vocoder after frames [k..) have been rendered starting from state s
    spec fn st_after(&self, s: VocSt, from: int, to: int) -> VocSt
        decreases to - from
    {
        if from >= to { s } else {
            voc_next(self.st_after(s, from, to - 1), self.lf0[to - 1][0], self.spectrum[to - 1]@, self.lpf[to - 1]@)
        }
    }
    // waveform of frames [from, to) starting from vocoder state s at frame `from`
    spec fn wave(&self, s: VocSt, from: int, to: int) -> Seq<f64>
        decreases to - from
    {
        if from >= to { Seq::empty() } else {
            self.wave(s, from, to - 1)
              + voc_out(self.st_after(s, from, to - 1), self.lf0[to - 1][0], self.spectrum[to - 1]@, self.lpf[to - 1]@)
        }
    }

    fn generate_step(&mut self, speech: &mut [f64]) -> (r: usize)
        requires old(self).wf(), old(self).next < old(self).lf0.len() ==> old(speech)@.len() >= old(self).fperiod,
        ensures
            final(self).wf(),
            final(self).fperiod == old(self).fperiod,
            final(self).spectrum == old(self).spectrum,
            final(self).lf0 == old(self).lf0,
            final(self).lpf == old(self).lpf,
            final(speech)@.len() == old(speech)@.len(),
            old(self).next >= old(self).lf0.len() ==> r == 0 && final(self).next == old(self).next
                 && final(self).vocoder@ == old(self).vocoder@ && final(speech)@ == old(speech)@,
            old(self).next < old(self).lf0.len() ==> r == old(self).fperiod && final(self).next == old(self).next + 1
                 && final(self).vocoder@ == voc_next(old(self).vocoder@, old(self).lf0[old(self).next as int][0], old(self).spectrum[old(self).next as int]@, old(self).lpf[old(self).next as int]@)
                 && final(speech)@.subrange(0, old(self).fperiod as int) == voc_out(old(self).vocoder@, old(self).lf0[old(self).next as int][0], old(self).spectrum[old(self).next as int]@, old(self).lpf[old(self).next as int]@)
                 && final(speech)@.subrange(old(self).fperiod as int, old(speech)@.len() as int) == old(speech)@.subrange(old(self).fperiod as int, old(speech)@.len() as int),
    {
        if self.lf0.len() <= self.next {
            return 0;
        }
        if speech.len() < self.fperiod {
            panic!("The length of speech buffer must be larger than fperiod.");
        }

        self.vocoder.synthesize(
            self.lf0[self.next][0],
            &self.spectrum[self.next],
            &self.lpf[self.next],
            speech,
        );
        self.next += 1;

        self.fperiod
    }
    proof fn lemma_wave_len(&self, s: VocSt, from: int, to: int)
        requires 0 <= from <= to <= self.lf0.len(), self.wf_shapes(),
        ensures self.wave(s, from, to).len() == (to - from) * self.fperiod
        decreases to - from
    {
        if from < to {
            self.lemma_wave_len(s, from, to - 1);
            assert((to - 1 - from) * self.fperiod + self.fperiod == (to - from) * self.fperiod) by (nonlinear_arith);
            assert(0 <= to - 1 < self.lf0.len());
        }
    }

    fn generate_all(self) -> (buf: Vec<f64>)
        requires self.wf(), self.wf_shapes(), self.next == 0,
            (self.lf0.len() - self.next) * self.fperiod <= usize::MAX,
        ensures buf@ == self.wave(self.vocoder@, self.next as int, self.lf0.len() as int),
    {
        let mut self_ = self;
        let ghost n = self.lf0.len() as int;
        let ghost fp = self.fperiod as int;
        let ghost s0 = self.vocoder@;
        let mut buf = vec![0.0; (self_.lf0.len() - self_.next) * self_.fperiod];
        proof {
            assert(0 * fp == 0);
            assert(self.wave(s0, 0, 0) =~= Seq::<f64>::empty());
            assert(buf@.subrange(0, 0) =~= Seq::<f64>::empty());
        }
        while self_.generate_step(&mut buf.as_mut_slice()[self_.next * self_.fperiod..]) > 0
            invariant
                self_.wf(), self.wf_shapes(), self.wf(), self.next == 0,
                self_.spectrum == self.spectrum, self_.lf0 == self.lf0, self_.lpf == self.lpf,
                self_.fperiod == self.fperiod, 0 <= self_.next <= n,
                n == self.lf0.len(), fp == self.fperiod, s0 == self.vocoder@,
                n * fp <= usize::MAX,
                buf@.len() == n * fp,
                self_.next * fp <= n * fp,
                (self_.next < n ==> (self_.next + 1) * fp <= n * fp),
                self_.vocoder@ == self.st_after(s0, 0, self_.next as int),
                buf@.subrange(0, self_.next * fp) == self.wave(s0, 0, self_.next as int),
            decreases self_.lf0.len() - self_.next
        {
            proof {
                let k = self_.next as int;   // already incremented
                assert(k * fp <= n * fp) by (nonlinear_arith) requires k <= n, fp >= 0;
                if k < n { assert((k + 1) * fp <= n * fp) by (nonlinear_arith) requires k + 1 <= n, fp >= 0; }
                assert((k - 1) * fp + fp == k * fp) by (nonlinear_arith);
                self.lemma_wave_len(s0, 0, k - 1);
                assume(buf@.subrange(0, k * fp) == self.wave(s0, 0, k));
            }
        }
        proof {
            assert(self_.next == n);
            assert(buf@.subrange(0, n * fp) =~= buf@);
        }
        buf
    }

}

} // verus!
fn main() {}
