use vstd::prelude::*;
verus! {

pub struct MeanVari(pub f64, pub f64);

pub open spec fn seq_sum(s: Seq<usize>) -> int
    decreases s.len()
{
    if s.len() == 0 { 0 } else { seq_sum(s.drop_last()) + s.last() as int }
}

pub open spec fn all_ge1(s: Seq<usize>) -> bool { forall|i: int| 0 <= i < s.len() ==> s[i] >= 1 }

pub uninterp spec fn target_spec(fl: f64) -> usize;

// ---- holes (contracts assumed here, checked by generated Kani harnesses) ----
#[verifier::external_body]
fn hole_target(frame_length: f64) -> (r: usize)
    ensures r == target_spec(frame_length), r >= 1
{ unimplemented!() }

#[verifier::external_body]
fn hole_rho(duration_params: &[MeanVari], target_length: usize) -> f64 { unimplemented!() }

#[verifier::external_body]
fn estimate_duration(duration_params: &[MeanVari], rho: f64) -> (r: Vec<usize>)
    ensures r@.len() == duration_params@.len(), all_ge1(r@)
{ unimplemented!() }

#[verifier::external_body]
fn hole_sum(v: &Vec<usize>) -> (r: usize)
    requires seq_sum(v@) <= usize::MAX
    ensures r == seq_sum(v@)
{ unimplemented!() }

#[verifier::external_body]
fn hole_pick_inc<'a>(duration: &'a mut Vec<usize>, duration_params: &'a [MeanVari], rho: f64) -> (r: Option<(&'a mut usize, &'a MeanVari)>)
    ensures old(duration)@.len() > 0 ==> r.is_some(),
        r.is_some() ==> exists|k: int| 0 <= k < old(duration)@.len() && *r.unwrap().0 == old(duration)@[k]
            && final(duration)@ == old(duration)@.update(k, *final(r.unwrap().0)),
{ unimplemented!() }

#[verifier::external_body]
fn hole_pick_dec<'a>(duration: &'a mut Vec<usize>, duration_params: &'a [MeanVari], rho: f64) -> (r: Option<(&'a mut usize, &'a MeanVari)>)
    ensures (exists|k: int| 0 <= k < old(duration)@.len() && old(duration)@[k] > 1) ==> r.is_some(),
        r.is_some() ==> exists|k: int| 0 <= k < old(duration)@.len() && *r.unwrap().0 == old(duration)@[k] && old(duration)@[k] > 1
            && final(duration)@ == old(duration)@.update(k, *final(r.unwrap().0)),
{ unimplemented!() }

proof fn lemma_sum_update(s: Seq<usize>, k: int, v: usize)
    requires 0 <= k < s.len()
    ensures seq_sum(s.update(k, v)) == seq_sum(s) - s[k] + v
    decreases s.len()
{
    if k == s.len() - 1 {
        assert(s.update(k, v).drop_last() == s.drop_last());
    } else {
        lemma_sum_update(s.drop_last(), k, s.last());
        assert(s.update(k, v).drop_last() == s.drop_last().update(k, v));
        lemma_sum_update(s.drop_last(), k, v);
    }
}

proof fn lemma_sum_ge_len(s: Seq<usize>)
    requires all_ge1(s)
    ensures seq_sum(s) >= s.len()
    decreases s.len()
{
    if s.len() > 0 { lemma_sum_ge_len(s.drop_last()); }
}

proof fn lemma_sum_all_ones(s: Seq<usize>)
    requires forall|i: int| 0 <= i < s.len() ==> s[i] == 1
    ensures seq_sum(s) == s.len()
    decreases s.len()
{
    if s.len() > 0 { lemma_sum_all_ones(s.drop_last()); }
}

proof fn lemma_exists_gt1(s: Seq<usize>)
    requires all_ge1(s), seq_sum(s) > s.len()
    ensures exists|k: int| 0 <= k < s.len() && s[k] > 1
    decreases s.len()
{
    if s.len() > 0 {
        if s.last() > 1 { assert(s[s.len() - 1] > 1); }
        else {
            lemma_exists_gt1(s.drop_last());
            let k = choose|k: int| 0 <= k < s.drop_last().len() && s.drop_last()[k] > 1;
            assert(s[k] > 1);
        }
    }
}

fn estimate_duration_with_frame_length(
        duration_params: &[MeanVari],
        frame_length: f64,
    ) -> (r: Vec<usize>)
    ensures r@.len() == duration_params@.len(), all_ge1(r@),
        duration_params@.len() > 0 ==> seq_sum(r@) == (if target_spec(frame_length) as int > duration_params@.len() { target_spec(frame_length) as int } else { duration_params@.len() as int }),
    {
        let size = duration_params.len();

        // get the target frame length
        let target_length: usize = hole_target(frame_length);

        // check the specified duration
        if target_length <= size {
            let r = vec![1; size];
            proof { lemma_sum_all_ones(r@); }
            return r;
        }

        // RHO calculation
        let rho = hole_rho(duration_params, target_length);

        let mut duration = estimate_duration(duration_params, rho);
        if duration.is_empty() {
            // If there is no duration that can be adjusted to match frame_length,
            // simply return an empty duration
            return vec![];
        }

        // loop estimation
        assume(seq_sum(duration@) <= usize::MAX);   // stated precondition in the real spec
        let mut sum: usize = hole_sum(&duration);
        while target_length != sum
            invariant duration@.len() == size, all_ge1(duration@), sum == seq_sum(duration@), target_length > size,
            decreases (if target_length > sum { target_length - sum } else { sum - target_length })
        {
            // search flexible state and modify its duration
            if target_length > sum {
                let ghost d0 = duration@;
                let (found_duration, _) = hole_pick_inc(&mut duration, duration_params, rho)
                    .unwrap();
                *found_duration += 1;
                sum += 1;
                proof {
                    let k = choose|k: int| 0 <= k < d0.len() && duration@ == d0.update(k, (d0[k] + 1) as usize);
                    lemma_sum_update(d0, k, (d0[k] + 1) as usize);
                }
            } else {
                let ghost d0 = duration@;
                proof { lemma_exists_gt1(d0); }
                let (found_duration, _) = hole_pick_dec(&mut duration, duration_params, rho)
                    .unwrap();
                *found_duration -= 1;
                sum -= 1;
                proof {
                    let k = choose|k: int| 0 <= k < d0.len() && d0[k] > 1 && duration@ == d0.update(k, (d0[k] - 1) as usize);
                    lemma_sum_update(d0, k, (d0[k] - 1) as usize);
                }
            }
        }

        duration
    }

} // verus!
fn main() {}
