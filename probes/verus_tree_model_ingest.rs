use vstd::prelude::*;
verus! {
pub assume_specification<'a, T: Copy> [std::option::Option::<&T>::copied] (o: std::option::Option<&'a T>) -> (r: std::option::Option<T>)
    ensures o.is_some() ==> r == Some(*o.unwrap()), o.is_none() ==> r.is_none();

#[verifier::external_body]
pub struct Label { _p: u8 }
#[verifier::external_body]
pub struct Question { _p: u8 }
impl Question {
    pub uninterp spec fn test_spec(&self, label: &Label) -> bool;
    #[verifier::external_body]
    pub fn test(&self, label: &Label) -> (r: bool) ensures r == self.test_spec(label) { unimplemented!() }
}

pub struct Tree {
    pub state: usize,
    pub nodes: Vec<TreeNode>,
}

pub enum TreeNode {
    Node {
        question: Question,
        yes: usize,
        no: usize,
    },
    Leaf {
        pdf_index: usize,
    },
}

impl Tree {
    /// Tree search
    #[verifier::exec_allows_no_decreases_clause]
    pub fn search_node(&self, label: &Label) -> Option<usize> {
        let mut node_index = 0;

        while let Some(node) = self.nodes.get(node_index) {
            match node {
                TreeNode::Leaf { pdf_index } => return Some(*pdf_index),
                TreeNode::Node { question, yes, no } => {
                    node_index = if question.test(label) { *yes } else { *no }
                }
            }
        }

        None
    }
}

pub struct MeanVari(pub f64, pub f64);
pub struct ModelParameter {
    pub parameters: Vec<MeanVari>,
    pub msd: Option<f64>,
}
pub struct Model {
    trees: Vec<Tree>,
    pdf: Vec<Vec<ModelParameter>>,
}
impl Model {
    #[verifier::external_body]
    fn find_tree_index(&self, state_index: usize) -> Option<usize> { unimplemented!() }

    pub fn get_index(&self, state_index: usize, label: &Label) -> (Option<usize>, Option<usize>) {
        let tree_index = self.find_tree_index(state_index);

        let tree = match tree_index {
            Some(idx) => &self.trees[idx],
            None => &self.trees[0],
        };

        let pdf_index = tree.search_node(label);

        (
            tree_index
                // Somehow hts_engine_API requires 2 to be added to tree index
                .map(|index| index + 2),
            pdf_index,
        )
    }
    pub fn get_parameter(&self, state_index: usize, label: &Label) -> &ModelParameter {
        let (Some(tree_index), Some(pdf_index)) = self.get_index(state_index, label) else {
            todo!("index not found!")
        };

        &self.pdf[tree_index - 2][pdf_index - 1]
    }
    pub fn from_linear(lin: Vec<f64>) -> ModelParameter {
        let len = lin.len() / 2;
        let mut parameters = Vec::with_capacity(len);
        for i in 0..len {
            parameters.push(MeanVari(lin[i], lin[i + len]))
        }
        ModelParameter {
            parameters,
            msd: lin.get(len * 2).copied(),
        }
    }
}
} // verus!
fn main() {}
