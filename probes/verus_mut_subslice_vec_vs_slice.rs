use vstd::prelude::*;
verus! {
#[verifier::external_body]
fn fill(s: &mut [u64])
    ensures final(s)@.len() == old(s)@.len(),
            forall|i: int| 0 <= i < final(s)@.len() ==> final(s)@[i] == 7,
{ unimplemented!() }

fn test_slice(v: &mut [u64], a: usize)
    requires a <= old(v)@.len(),
    ensures final(v)@.len() == old(v)@.len(),
        forall|i: int| 0 <= i < a ==> final(v)@[i] == old(v)@[i],
        forall|i: int| a <= i < final(v)@.len() ==> final(v)@[i] == 7,
{
    fill(&mut v[a..]);
}
fn test_vec(v: &mut Vec<u64>, a: usize)
    requires a <= old(v)@.len(),
    ensures final(v)@.len() == old(v)@.len(),
        forall|i: int| 0 <= i < a ==> final(v)@[i] == old(v)@[i],
        forall|i: int| a <= i < final(v)@.len() ==> final(v)@[i] == 7,
{
    fill(&mut v[a..]);
}
fn test_vec2(v: &mut Vec<u64>, a: usize)
    requires a <= old(v)@.len(),
    ensures final(v)@.len() == old(v)@.len(),
        forall|i: int| 0 <= i < a ==> final(v)@[i] == old(v)@[i],
        forall|i: int| a <= i < final(v)@.len() ==> final(v)@[i] == 7,
{
    let s = v.as_mut_slice();
    fill(&mut s[a..]);
}
} // verus!
fn main() {}
