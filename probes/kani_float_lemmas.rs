// loop-free float lemmas, full domain
#[kani::proof]
fn align_round_identity() {
    let end: f64 = kani::any();
    let fc: usize = kani::any();
    kani::assume(fc <= (1usize << 40));
    kani::assume(end >= 0.0 && end <= 1.0e12);
    let d = end - fc as f64;
    let t = d.round().max(1.0) as usize;
    kani::assume(d.round() >= 1.0);
    assert!(fc + t == end.round() as usize);
}
#[kani::proof]
fn speed1_round() {
    let m: f64 = kani::any();
    let v: f64 = kani::any();
    kani::assume(m.is_finite() && v.is_finite());
    let a = (m + 0.0 * v).round().max(1.0) as usize;
    let b = m.round().max(1.0) as usize;
    assert!(a == b && a >= 1);
}
#[kani::proof]
fn target_monotone_in_speed() {
    let f1: u32 = kani::any();
    let s1: f64 = kani::any();
    let s2: f64 = kani::any();
    kani::assume(s1 >= 1.0e-6 && s2 <= 1.0e6 && s1 <= s2);
    let t1 = (f1 as f64 / s1).round().max(1.0) as usize;
    let t2 = (f1 as f64 / s2).round().max(1.0) as usize;
    assert!(t1 >= t2);
}
