use vstd::prelude::*;
verus! {

#[verifier::external_body] pub struct Label { _p: u8 }
#[verifier::external_body] pub struct VoiceSet { _p: u8 }
#[verifier::external_body] pub struct InterporationWeight { _p: u8 }
#[verifier::external_body] pub struct Vocoder { _p: u8 }
#[verifier::external_body] pub struct Windows { _p: u8 }
#[verifier::external_body] pub struct StreamParameter { _p: u8 }
#[verifier::external_body] pub struct Labels { _p: u8 }
#[verifier::external_body] pub struct Models<'a> { _p: &'a u8 }
#[verifier::external_body] pub struct DurationEstimator { _p: u8 }
#[verifier::external_body] pub struct MlpgAdjust<'a> { _p: &'a u8 }
#[verifier::external_body] pub struct SpeechGenerator { _p: u8 }
pub struct MeanVari(pub f64, pub f64);
pub enum EngineError { LabelError }

pub struct ModelStream<'a> {
    pub vector_length: usize,
    pub stream: StreamParameter,
    pub gv: Option<(Vec<MeanVari>, Vec<bool>)>,
    pub windows: &'a Windows,
}

pub struct StreamMeta { pub vector_length: usize }
pub struct GlobalMeta { pub num_streams: usize }

impl VoiceSet {
    #[verifier::external_body] pub fn stream_metadata(&self, i: usize) -> &StreamMeta { unimplemented!() }
    #[verifier::external_body] pub fn global_metadata(&self) -> &GlobalMeta { unimplemented!() }
}
impl Labels {
    #[verifier::external_body] pub fn labels(&self) -> &[Label] { unimplemented!() }
    #[verifier::external_body] pub fn times(&self) -> &[(f64, f64)] { unimplemented!() }
}
impl StreamParameter {
    #[verifier::external_body] pub fn apply_additional_half_tone(&mut self, h: f64) { unimplemented!() }
}
impl Vocoder {
    #[verifier::external_body]
    pub fn new(nmcp: usize, nlpf: usize, stage: usize, use_log_gain: bool, rate: usize, alpha: f64, beta: f64, volume: f64, fperiod: usize) -> Self { unimplemented!() }
}
impl<'a> Models<'a> {
    #[verifier::external_body] pub fn new(labels: &'a [Label], voices: &'a VoiceSet, weights: &'a InterporationWeight) -> Self { unimplemented!() }
    #[verifier::external_body] pub fn duration(&self) -> Vec<MeanVari> { unimplemented!() }
    #[verifier::external_body] pub fn nstate(&self) -> usize { unimplemented!() }
    #[verifier::external_body] pub fn model_stream(&self, i: usize) -> ModelStream { unimplemented!() }
}
impl DurationEstimator {
    #[verifier::external_body] pub fn new(d: Vec<MeanVari>, n: usize) -> Self { unimplemented!() }
    #[verifier::external_body] pub fn create(&self, speed: f64) -> Vec<usize> { unimplemented!() }
    #[verifier::external_body] pub fn create_with_alignment(&self, t: &[(f64, f64)]) -> Vec<usize> { unimplemented!() }
}
impl<'a> MlpgAdjust<'a> {
    #[verifier::external_body] pub fn new(gv_weight: f64, msd_threshold: f64, ms: ModelStream<'a>) -> Self { unimplemented!() }
    #[verifier::external_body] pub fn create(&self, durations: &[usize]) -> Vec<Vec<f64>> { unimplemented!() }
}
impl SpeechGenerator {
    #[verifier::external_body] pub fn new(fperiod: usize, vocoder: Vocoder, spectrum: Vec<Vec<f64>>, lf0: Vec<Vec<f64>>, lpf: Vec<Vec<f64>>) -> Self { unimplemented!() }
}

pub struct Condition {
    sampling_frequency: usize,
    fperiod: usize,
    volume: f64,
    msd_threshold: Vec<f64>,
    gv_weight: Vec<f64>,
    phoneme_alignment_flag: bool,
    speed: f64,
    stage: usize,
    use_log_gain: bool,
    alpha: f64,
    beta: f64,
    additional_half_tone: f64,
    interporation_weight: InterporationWeight,
}

pub trait ToLabels {
    fn to_labels(self, condition: &Condition) -> Result<Labels, EngineError>;
}

pub struct Engine {
    pub condition: Condition,
    pub voices: VoiceSet,
}

impl Engine {
    pub fn generator(&self, labels: impl ToLabels) -> Result<SpeechGenerator, EngineError> {
        let labels = labels.to_labels(&self.condition)?;
        let vocoder = Vocoder::new(
            self.voices.stream_metadata(0).vector_length,
            self.voices.stream_metadata(2).vector_length,
            self.condition.stage,
            self.condition.use_log_gain,
            self.condition.sampling_frequency,
            self.condition.alpha,
            self.condition.beta,
            self.condition.volume,
            self.condition.fperiod,
        );

        let models = Models::new(
            labels.labels(),
            &self.voices,
            &self.condition.interporation_weight,
        );

        let estimator = DurationEstimator::new(models.duration(), models.nstate());
        let durations = if self.condition.phoneme_alignment_flag {
            estimator.create_with_alignment(labels.times())
        } else {
            estimator.create(self.condition.speed)
        };

        fn mutated<T, F: FnOnce(&mut T)>(mut value: T, f: F) -> T {
            f(&mut value);
            value
        }

        let spectrum = MlpgAdjust::new(
            self.condition.gv_weight[0],
            self.condition.msd_threshold[0],
            models.model_stream(0),
        )
        .create(&durations);
        let lf0 = MlpgAdjust::new(
            self.condition.gv_weight[1],
            self.condition.msd_threshold[1],
            mutated(models.model_stream(1), |m| {
                m.stream
                    .apply_additional_half_tone(self.condition.additional_half_tone);
            }),
        )
        .create(&durations);
        let lpf = if self.voices.global_metadata().num_streams > 2 {
            MlpgAdjust::new(
                self.condition.gv_weight[2],
                self.condition.msd_threshold[2],
                models.model_stream(2),
            )
            .create(&durations)
        } else {
            vec![vec![0.0; 0]; lf0.len()]
        };

        Ok(SpeechGenerator::new(
            self.condition.fperiod,
            vocoder,
            spectrum,
            lf0,
            lpf,
        ))
    }
}

} // verus!
fn main() {}
