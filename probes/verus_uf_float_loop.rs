use vstd::prelude::*;
use vstd::std_specs::ops::*;
verus! {

pub mod fax {
use vstd::prelude::*;
use vstd::std_specs::ops::*;
// Trusted: IEEE-754 arithmetic on f64 is total (never panics) and deterministic.
#[verifier::external_body]
pub broadcast proof fn axiom_f64_add(a: f64, b: f64)
    ensures #[trigger] a.add_req(b), <f64 as AddSpec>::obeys_add_spec() { }
#[verifier::external_body]
pub broadcast proof fn axiom_f64_mul(a: f64, b: f64)
    ensures #[trigger] a.mul_req(b), <f64 as MulSpec>::obeys_mul_spec() { }
#[verifier::external_body]
pub broadcast proof fn axiom_f64_sub(a: f64, b: f64)
    ensures #[trigger] a.sub_req(b), <f64 as SubSpec>::obeys_sub_spec() { }
#[verifier::external_body]
pub broadcast proof fn axiom_f64_div(a: f64, b: f64)
    ensures #[trigger] a.div_req(b), <f64 as DivSpec>::obeys_div_spec() { }
}
use fax::*;
broadcast use {axiom_f64_add, axiom_f64_mul, axiom_f64_sub, axiom_f64_div};

pub struct MeanVari(pub f64, pub f64);

fn fma(a: f64, b: f64, c: f64) -> (r: f64)
    ensures r == a.add_spec(b.mul_spec(c)),
{
    a + b * c
}

fn mul_add_assign(lhs: &mut Vec<MeanVari>, weight: f64, rhs: &Vec<MeanVari>)
    requires old(lhs)@.len() == rhs@.len(),
    ensures final(lhs)@.len() == old(lhs)@.len(),
        forall|i: int| 0 <= i < rhs@.len() ==> final(lhs)@[i].0 == old(lhs)@[i].0.add_spec(weight.mul_spec(rhs@[i].0)),
{
    let n = lhs.len();
    for i in 0..n
        invariant lhs@.len() == n, rhs@.len() == n,
            forall|j: int| 0 <= j < i ==> lhs@[j].0 == old(lhs)@[j].0.add_spec(weight.mul_spec(rhs@[j].0)),
            forall|j: int| i <= j < n ==> lhs@[j] == old(lhs)@[j],
    {
        lhs[i].0 = lhs[i].0 + weight * rhs[i].0;
    }
}

} // verus!
fn main() {}
