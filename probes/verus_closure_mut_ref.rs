use vstd::prelude::*;
verus! {

pub struct SP { pub v: u64 }
impl SP {
    pub fn shift(&mut self, h: u64)
        requires old(self).v < 1000, h < 1000,
        ensures final(self).v == old(self).v + h,
    { self.v = self.v + h; }
}
pub struct MS { pub stream: SP, pub other: u64 }

fn mutated<T, F: FnOnce(&mut T)>(mut value: T, f: F) -> (r: T)
    requires forall|x: &mut T| f.requires((x,)),
    ensures true,
{
    f(&mut value);
    value
}

fn caller(ms: MS, h: u64) -> (r: MS)
    requires ms.stream.v < 1000, h < 1000,
{
    mutated(ms, |m: &mut MS| {
        m.stream.shift(h);
    })
}

} // verus!
fn main() {}
