use vstd::prelude::*;
use vstd::std_specs::ops::*;
verus! {
pub mod fax {
    use vstd::prelude::*;
    use vstd::std_specs::ops::*;
    verus! {
    #[verifier::external_body]
    pub broadcast proof fn axiom_f64_add(a: f64, b: f64)
        ensures #[trigger] a.add_req(b) { }
    #[verifier::external_body]
    pub broadcast proof fn axiom_f64_add_obeys(a: f64, b: f64)
        ensures <f64 as AddSpec>::obeys_add_spec(), #[trigger] a.add_spec(b) == a.add_spec(b) { }
    #[verifier::external_body]
    pub broadcast proof fn axiom_f64_mul(a: f64, b: f64)
        ensures #[trigger] a.mul_req(b) { }
    #[verifier::external_body]
    pub broadcast proof fn axiom_f64_mul_obeys(a: f64, b: f64)
        ensures <f64 as MulSpec>::obeys_mul_spec(), #[trigger] a.mul_spec(b) == a.mul_spec(b) { }
    pub broadcast group f64_total { axiom_f64_add, axiom_f64_add_obeys, axiom_f64_mul, axiom_f64_mul_obeys }
    }
}
broadcast use fax::f64_total;

fn fma(a: f64, b: f64, c: f64) -> (r: f64)
    ensures r == a.add_spec(b.mul_spec(c)),
{
    a + b * c
}
} // verus!
fn main() {}
